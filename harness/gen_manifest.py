"""gen_manifest.py — writes MANIFEST.json from the table below (kept in one
place so the manifest stays valid while checks are added)."""
import json
import os

VERIF = os.path.dirname(os.path.dirname(os.path.abspath(__file__)))

CHECKS = {
    "C19": dict(
        text=("Coq theorems (unbounded): merge_extents never drops coverage, outputs start/end at input boundaries, adds only "
              "one-byte adjacency gaps, keeps order; the FIEMAP paging loop returns exactly the extent list for any number of "
              "extents; the SEEK_DATA/SEEK_HOLE walk reports exactly the data set. Tied to libfs by running the same inputs "
              "through the probe (real libfs) and the Gallina model (vm_compute), plus a direct zero-outside-ranges oracle on "
              "real ext4 files."),
        note=("FIEMAP / SEEK_DATA / SEEK_HOLE answers are modelled by contract functions (kernel_fiemap, k_seek_data, "
              "k_seek_hole); the contract is checked per file against the real kernel's raw answers. u64 overflow of "
              "p.end+1 / logical+length is outside the model (guard: values < 2^64-1)."),
        technique="Coq proof over hand-written Gallina model + differential correspondence (probe vs vm_compute)",
        design="Part II C19"),
}

CHECKS.update({
    "C01": dict(
        text=("Coq theorems for all sizes / block sizes >= 1 / layouts / answer sequences: the block partition of parblock is "
              "exact and overflow-free; the parfile cursor loop and sparse walk transfer exactly the data, aligned; parblock "
              "writes every byte of every queued range in EVERY completion order; after CopyHandle::new nothing of the old "
              "destination survives. Tied to the code by running the real xcp under a ptrace supervisor, feeding the "
              "kernel's actual answers to the Gallina model and comparing the transfer requests, exit class and final bytes."),
        note=("per-file theorems; kernel contract: copy_file_range/pread/pwrite move the bytes they report, never more than "
              "asked; SEEK/FIEMAP answers describe a layout whose complement reads zero (checked per case). The lift from "
              "one file to a whole run is C02/C06's."),
        technique="Coq proof over hand-written Gallina model + trace-level differential correspondence under ptrace",
        design="Part II C01"),
    "C05": dict(
        text=("Coq theorems quantified over every answer sequence (short counts down to 1 byte, zero counts, errno, "
              "fall-backs): user-space pread/pwrite and read/write_all loops and both drivers' copy loops report success "
              "only when the range is completely and alignedly transferred; errno classification tables proved. The "
              "supervisor makes the real kernel produce those answers (clamped copy_file_range/read/write, ENOSYS/EXDEV/"
              "EPERM, FICLONE/FIEMAP unsupported, EINTR) and the model must predict the same requests and outcome; also "
              "run on the binary built without the Linux backend."),
        note="as C01; the parblock short-count defect found here is repaired by a fix: commit (known_findings.jsonl).",
        technique="Coq proof over answer-sequence oracle model + ptrace fault/short-count injection correspondence",
        design="Part II C05"),
    "C11": dict(
        text=("Coq theorems: for a source classified sparse, parfile writes exactly the SEEK_DATA segments and parblock only "
              "extent bytes plus merge gaps, in any completion order and for any hole size; an entirely empty file causes no "
              "write; the destination prologue releases the old allocation. Correspondence on real sparse ext4 files "
              "(written ranges = model's), direct oracle on st_blocks and the destination's SEEK map."),
        note="partial by nature: which ranges are written is proved; ext4's block allocation for them is observed.",
        technique="Coq proof (written ranges) + correspondence and st_blocks oracle on real sparse files",
        design="Part II C11"),
    "C15": dict(
        text=("Coq theorems over the model of try_reflink x reflink errno table x both drivers: never issues no clone; always "
              "succeeds iff the clone succeeded and then copies no data; always+unsupported fails; auto clones first, falls "
              "back to exactly the plain copy on unsupported answers, and fails on hard errors. The supervisor answers the "
              "real FICLONE ioctl with each errno or emulated success and the trace must match the model."),
        note="a real successful clone cannot be exercised on ext4; success is emulated by skipping the ioctl and returning 0.",
        technique="Coq proof of the mode decision table + ptrace-injected clone answers correspondence",
        design="Part II C15"),
})

CHECKS.update({
    "C09": dict(
        text=("Coq theorems over arbitrary byte-string names (non-UTF-8 included): only `<name>.~<ASCII digits>~` with a u64 "
              "value counts as a backup of <name> and every generated backup name is recognised; the chosen number exceeds "
              "all present and its name is fresh; one overwrite preserves the old version under that name and changes "
              "nothing else; any history never touches an existing entry; at every intermediate state of an overwrite the "
              "old content is under the original or the backup name; auto mode backs up iff a backup of that name exists. "
              "Tied to libxcp::backup by running is_num_backup/next_backup_num/get_backup_path (hooks) and the model on the "
              "same names and directories, plus histories of real xcp runs and SIGKILL at every mutating call."),
        note=("after the repair `fix: recognise numbered backups by exact raw name`. Guard: existing numbers < 2^64-1 "
              "(`current + 1` panics in debug / wraps in release at u64::MAX). rename(2) atomicity is the kernel's."),
        technique="Coq proof over byte-string model of backup.rs + differential probe and history/kill correspondence",
        design="Part II C09"),
})

CHECKS.update({
    "C12": dict(
        text=("Coq theorems: ChannelUpdater batching delivers, for every send order and block size, never more copied bytes than "
              "were sent and drops no Size/Error; a loop never reports more than it was asked to copy whatever its outcome; if "
              "per file the reported bytes stay within the announced size in every prefix then globally sum(Copied) <= "
              "sum(Size) at every prefix of every interleaving, also after batching. Tied to libxcp by an API probe: real "
              "ChannelUpdater vs the model's filter (exact), and library copies under the supervisor with updates written to "
              "fd 9 so they are totally ordered with the data calls (prefix truthfulness, sizes sum, stream closes, "
              "incomplete => error)."),
        note=("channel closure after copy() is C07's; crossbeam FIFO/linearizable and AtomicU64::fetch_add atomic are "
              "library contracts; bs = 0 (division by zero) excluded."),
        technique="Coq proof of batching filter and prefix accounting + API probe / ptrace-ordered update stream",
        design="Part II C12"),
    "C10": dict(
        text=("Coq theorems over the finalisation action list and kernel metadata rules (fchmod mask, chown clearing set-id "
              "bits, futimens, xattrs, creation mode): for all modes, times, xattr sets, ids, flag combinations and previous "
              "destination metadata the requested attributes end up equal to the source's and the suppressed ones untouched; "
              "ownership no longer costs set-id bits. Correspondence: real copies (root) compared with the model's final "
              "metadata and action order from the trace; direct lstat/xattr oracle."),
        note=("after `fix: apply ownership before permissions`. The three kernel rules are modelled functions validated by the "
              "runs; finalise-after-last-write under all schedules is C06/C18's theorem; atime is not compared."),
        technique="Coq proof over metadata action model + ptrace trace/lstat correspondence",
        design="Part II C10"),
    "C14": dict(
        text=("Coq theorems: copy_node creates the source's type, mode & 07777 & ~umask and st_rdev for all kinds/modes/umasks/"
              "device numbers; sockets, FIFOs and character devices are classified Special (never opened), block/unknown are "
              "errors; an existing entry is replaced unless no-clobber. Correspondence: real mknod runs (CAP_MKNOD) incl. "
              "majors/minors > 255, umask 0/022/077, existing entries, both drivers; trace shows no open/read of the source."),
        note="after `fix: copy_node ... own device number`. umask application by mknodat is the kernel's (modelled, validated).",
        technique="Coq proof over node-creation model + real mknod correspondence under ptrace",
        design="Part II C14"),
})

CHECKS.update({
    "C02": dict(
        text=("Coq theorems over a model of tree_walker on abstract trees (readdir order, link resolution as data): the walk "
              "equals `process the selected entries in order until the first failure`; targets are target_base ++ relative "
              "path, injective, children below parents; selected entries have distinct paths; MIRROR: after a successful walk "
              "every selected entry's target holds the same kind (file length / dir / identical link text / node type) and "
              "FRAME: every path that is not a target or an ancestor of one is unchanged; Size updates sum to the selected "
              "files. Tied to the code three ways: std::path algebra vs Paths.v (probe), libxcp::tree_walker vs the Gallina walk "
              "on generated trees (operations, sizes, result, directories), and real xcp runs vs an independent Python "
              "statement of cp's mapping rule with a whole-sandbox frame check."),
        note=("sequential effect of the operations; schedule independence is C06, file bytes C01. Hypotheses: unique sibling "
              "names, directory targets absent or directories, no symlinked directories on mapped destination paths. After "
              "`fix: parfile reports a failed symlink creation`."),
        technique="Coq proof over walker/destination-map model + three-layer differential correspondence",
        design="Part II C02"),
    "C08": dict(
        text=("Coq theorems: with no-clobber no operation (copy, link, mkdir, mknod) is ever emitted for a target that exists, "
              "in successful and failing walks, for every tree and matcher; any selected entry mapping onto an existing entry "
              "makes the walk fail; FRAME: applying the emitted operations leaves every initially existing destination entry "
              "exactly as it was; the worker-side check for special files refuses. Correspondence: real runs with collisions of "
              "every kind (file, dir, FIFO, live/dangling symlink) x source kind x position, under random thread holds; model "
              "result vs exit status; before/after snapshot of every pre-existing entry."),
        note=("after `fix: --no-clobber treats a dangling symlink at the target as existing`. The existence oracle is the "
              "initial destination state (ops own distinct targets: C06)."),
        technique="Coq proof of no-op-on-existing + frame over walker model, snapshot correspondence under ptrace holds",
        design="Part II C08"),
    "C13": dict(
        text=("Coq theorems (model after the dereference repair): under --dereference the walk never emits a link operation; a "
              "reached dangling or cyclic link makes it fail; the selected entries are the image of the resolved tree (link to "
              "file -> file entry, link to directory -> directory entry plus the target's contents under the link's path), and "
              "success means every one of them was processed. Correspondence: real -r -L runs on trees with links to files/"
              "dirs/links (chains to 30), relative/absolute, inside/outside, dangling, cycles, self and ancestor links vs an "
              "independent resolver and vs the model on the harness-resolved tree."),
        note="link resolution (canonicalize, 40-link limit, walkdir's ancestor-loop detection) is input data of the model.",
        technique="Coq proof over walker model with link-resolution data + resolver/xcp/model three-way comparison",
        design="Part II C13"),
    "C16": dict(
        text=("Coq theorems over the model of main()'s front (option conflict, argument split, glob oracle, validation block): "
              "every invocation in the property's invalid classes is rejected by validation, for every position of the "
              "offending source and all file-system oracles; passing validation implies the stated guarantees; -n with -f and "
              "malformed/empty globs reject; a rejected invocation hands no sources to the driver. Correspondence: generated "
              "invalid invocations x positions x destination states x drivers: exit status, error CLASS (message) vs the "
              "model's code, and a byte-for-byte snapshot of the sandbox incl. directory mtimes."),
        note=("after three validation repairs (known_findings.jsonl). clap's own usage errors are exercised by the "
              "correspondence only. Validation issues only stat-like calls: side-effect freedom of a rejected run is observed."),
        technique="Coq proof: declarative Invalid => validate rejects, + snapshot/error-class correspondence",
        design="Part II C16"),
    "C17": dict(
        text=("Coq theorems for EVERY matcher: the walk with filter_entry pruning selects exactly the entries none of whose "
              "ancestors-or-self is ignored (order preserved) and processes them; without the flag nothing is filtered. "
              "Three-way correspondence on generated trees x .gitignore files from the property's pattern language: real "
              "xcp copy set = git check-ignore's not-ignored set (with ancestor pruning) = the Gallina walk fed with the real "
              "ignore crate's verdicts."),
        note="partial: that the `ignore` crate implements git's glob semantics is validated against git itself, not proved.",
        technique="Coq proof of pruning=filtering for all matchers + xcp/git/model three-way differential",
        design="Part II C17"),
})

CHECKS.update({
    "C03": dict(
        text=("Coq theorems over the per-operation system-call footprint (Ops.v): every key a copy/link/special operation can "
              "change, in ANY prefix of its execution (wherever it is killed or fails), is its own mapped target or that "
              "target's numbered backup, never a source; a target that denotes the source itself (same inode, any spelling, "
              "symlink, hard link) is refused before any mutating action. Correspondence: alias invocations of every kind, "
              "SIGKILL before/after every mutating call, one injected errno at every call; sources and bystanders compared "
              "before/after; every mutating call of the trace must hit a mapped destination path; the per-file mutating action "
              "sequence equals the model's."),
        note=("after `fix: refuse to copy a file onto itself through an alias` and the inode check in validation. Atomicity of "
              "each system call under SIGKILL is the kernel's; atime is not compared."),
        technique="Coq proof of footprint ownership/prefix-closure + ptrace kill/fault enumeration with snapshots",
        design="Part II C03"),
    "C04": dict(
        text=("Coq theorems over the error-propagation model of one operation: a failing step outside the finalisation class "
              "always yields an error exit; exit-ok after a fault implies the failing action was a tolerated one (xattr, "
              "ownership) or lies in the known class; a tolerated failure does not skip the permission/timestamp/fsync steps; the "
              "known class is proved real by a witness. Fault enumeration on the real binary: one errno from {EIO ENOSPC EACCES "
              "EMFILE EROFS EEXIST EPERM} at every system call of walker, dispatcher and workers, both drivers (pairs in "
              "thorough); exit 0 must imply a complete and correct destination incl. mode/mtime/backups; exit class vs the model."),
        note=("two recorded findings print KNOWN-FINDING lines (finalisation in Drop; exists()/is_dir() probes); a third found "
              "here (swallowed readdir errors in the backup scan) is repaired. Proof level is thin by nature here: the "
              "assurance is the enumeration."),
        technique="fault enumeration via ptrace + Coq proof of the propagation model it is compared with",
        design="Part II C04"),
})


CHECKS.update({
    "C06": dict(
        text=("Coq theorems over labelled transition systems of both drivers (walker, dispatcher, bounded pool queue, W pool "
              "workers, Arc reference count / walker, W workers) whose reachable relation contains EVERY interleaving, for any "
              "W, Q >= 1 and any operation list: at the end every copied file was opened once, received each of its blocks "
              "exactly once in some order, was finalised once after all of them, and nothing else touched it; every inline "
              "operation happened once; the two drivers agree; metadata never precedes a write in any prefix. The same "
              "executable automaton (ConcOutcome.phase_of / history_ok) judges, inside Coq, the projected supervisor traces of "
              "the real xcp under random thread holding, 1..64 workers, both drivers, kernel copy available or not; the direct "
              "oracle compares exit status and the full destination snapshot of every schedule with a reference run and "
              "checks directory-before-child and no-write-after-finalise on the trace."),
        note=("protocol model: crossbeam channels are FIFO and linearizable, the thread pool runs queued jobs once, Arc drops "
              "run finalisation at count 0 (trusted libraries, validated by the traces). Block writes of one file commute "
              "because they are aligned and disjoint (C01). Hypothesis Independent: distinct sources map to distinct targets."),
        technique="Coq proof over interleaving LTS of both drivers + schedule exploration under ptrace judged by the Coq automaton",
        design="Part II C06"),
    "C07": dict(
        text=("Coq theorems over ConcFault.v, an LTS of every thread of a run (main's update loop, the driver's joins, walker, "
              "dispatcher, bounded pool queue, pool / parfile workers) with FAILURES as labels: for every interleaving and "
              "every number and placement of failing steps, any W, Q >= 1, no reachable state is stuck before main has "
              "exited, every step strictly decreases a measure bounded by the workload (no spin, bounded executions), exit 0 "
              "only when nothing failed and all work is done; the kernel-call loops of one operation are bounded for every "
              "answer sequence. The check validates the model's assumptions on the real binary: large trees (> 1024 entries "
              "after the fault), faults in each thread, all parfile workers killed, 1/4/64 workers, FIFOs/sockets never "
              "opened, library entry points (copy() returns, channel closes), block_size 0, empty trees; a run exceeding the "
              "wall-clock bound is the violation."),
        note=("termination of each system call, OS scheduler fairness and finitely many EINTR are outside the theorem; "
              "unboundedness of the operation and status channels is a modelled fact that the large-tree fault runs validate."),
        technique="Coq proof (deadlock freedom + decreasing measure on a fault-labelled LTS) + fault-injected runs with a wall-clock bound",
        design="Part II C07"),
    "C18": dict(
        text=("Coq theorems: within one copy operation fsync - exactly one when requested, none otherwise - is the last action, "
              "after every sizing/clone/data action; under EVERY interleaving of both drivers finalisation of a file happens "
              "exactly once, after every block write of that file, before the final state (also for zero-length and cloned "
              "files), and no handle survives. On real traces (random thread holds, 1..16 workers, multi-block / empty / "
              "all-hole / hole-edged files, kernel copy available or not) the oracle requires an fsync entered after the exit "
              "of the file's last data or size call and returned before exit; per-file action sequences are compared with "
              "Ops.copy_actions and histories judged by ConcOutcome.history_ok."),
        note="ordering of system calls only; durability itself is the kernel's. A failing fsync is C04's known finding F-04.",
        technique="Coq proof (action order + protocol invariant) + trace oracle under schedule exploration",
        design="Part II C18"),
    "C20": dict(
        text=("Coq invariant over every reachable state of the parblock LTS: open handles <= Q + W + 1 for any number of "
              "files (holders = queued jobs, running jobs, the dispatcher); parfile <= W; with Q = 128, W <= 64 this is below "
              "the default limit of 1024 descriptors. The supervisor holds all pool workers until the program is quiescent; the "
              "descriptors open at that moment must EQUAL twice the handles of the model run in the same situation (ties Q = "
              "128 to the source) for 300 / 1500 files and multi-block files; peaks must not grow with the tree; 3000-file "
              "(thorough 30000) trees must copy under RLIMIT_NOFILE=1024 with up to 64 workers."),
        note="walkdir's bound on open directories (10) and the descriptor cost of stdio/progress are constants taken from documentation.",
        technique="Coq invariant proof on the driver LTS + measured descriptor peak with held workers vs the model's state",
        design="Part II C20"),
})

NOT_YET = {}

def main():
    props = [json.loads(l) for l in open(os.path.join(VERIF, "properties.jsonl"))]
    checks = []
    na = []
    for p in props:
        pid = p["id"]
        if pid in CHECKS:
            c = CHECKS[pid]
            checks.append(dict(
                property_id=pid,
                quick_cmd="./check %s quick" % pid,
                thorough_cmd="./check %s thorough" % pid,
                evidence_file="evidence/%s.json" % pid,
                replay_cmd_template="./check %s --replay {path}" % pid,
                engine="coq+correspondence",
                level_claimed=dict(category="proof", text=c["text"], design_ref="DESIGN.md " + c["design"]),
                level_note=c["note"],
                technique=c["technique"]))
        else:
            na.append(dict(property_id=pid, reason=NOT_YET.get(
                pid, "check not built yet in this revision (work in progress; DESIGN.md Part II describes the planned "
                     "Coq model, theorems and correspondence)")))
    m = dict(
        version=1,
        setup_cmd="./setup.sh",
        hooks=dict(
            guard="xcp_verif",
            enable='RUSTFLAGS="--cfg xcp_verif" cargo build --offline (visibility-only re-exports: libfs::verif_hooks, '
                   'libxcp::verif_hooks)',
            baseline_off_cmd="cd /repo && cargo test --workspace --no-fail-fast --offline",
            source_commits=open(os.path.join(VERIF, "hooks_commits.txt")).read().split(),
            add_only=True),
        engines=[dict(name="coq+correspondence", path="check",
                      serves_properties=sorted(CHECKS.keys()),
                      kind_free_text="Coq 8.16.1 theorems over a hand-written Gallina model of xcp (coq/), tied to /repo on "
                                     "every run by a differential correspondence check (harness/, probe/, sup/)")],
        checks=checks,
        notes="See DESIGN.md. Known findings: known_findings.jsonl.",
        not_applicable=na)
    with open(os.path.join(VERIF, "MANIFEST.json"), "w") as f:
        json.dump(m, f, indent=1)
        f.write("\n")

if __name__ == "__main__":
    main()
