"""trees.py — generated source trees and destination states.

A tree spec is a nested structure:
   ("dir", {name_bytes: node, ...}, meta) | ("file", size, meta) | ("link", target_bytes) |
   ("fifo", meta) | ("sock", meta) | ("chr", (major, minor), meta) | ("blk", (major, minor), meta)
meta: dict(mode=..., mtime_ns=..., xattr={...}, uid=, gid=, data=[(s,e)...]) (all optional)
"""
import os
import socket
import stat

import fsutil

NAMES_PLAIN = [b"a", b"b", b"c", b"file.txt", b"data.bin", b"x", b"y", b"README", b"main.rs", b"Makefile", b"lib", b"src",
               b"docs", b"t1", b"t2", b"n", b"m", b"k"]
NAMES_ODD = [b"with space", b"\xc3\xa9t\xc3\xa9", b"\xe6\x97\xa5\xe6\x9c\xac", b"nonutf8-\xff\xfe", b".hidden", b".dotdir",
             b"a.~1~", b"tab\there", b"-dash", b"semi;colon", b"quote'q", b"star*", b"nl\nname", b"trailingdot.", b"~", b"#hash"]


class SizeAlloc:
    """unique file sizes so updates and files can be matched"""

    def __init__(self, rng, small=True):
        self.rng = rng
        self.used = set()
        self.small = small

    def next(self):
        while True:
            r = self.rng.random()
            if r < 0.1:
                s = self.rng.randrange(0, 4)
            elif r < 0.7 or self.small:
                s = self.rng.randrange(1, 9000)
            else:
                s = self.rng.randrange(9000, 300000)
            if s not in self.used or s == 0:
                self.used.add(s)
                return s


def gen_dir(rng, depth, fanout, sizes, odd_names=0.25, links=0.15, specials=0.0, empty_dirs=0.1, link_targets=None,
            meta=False):
    n = rng.randrange(0 if rng.random() < empty_dirs else 1, fanout + 1)
    names = set()
    children = {}
    for _ in range(n):
        for _try in range(10):
            nm = rng.choice(NAMES_ODD) if rng.random() < odd_names else rng.choice(NAMES_PLAIN)
            if rng.random() < 0.3:
                nm = nm + b"%d" % rng.randrange(10)
            if nm not in names:
                break
        else:
            continue
        names.add(nm)
        r = rng.random()
        if depth > 0 and r < 0.3:
            children[nm] = gen_dir(rng, depth - 1, fanout, sizes, odd_names, links, specials, empty_dirs, link_targets, meta)
        elif r < 0.3 + links:
            t = rng.choice(link_targets or [b"a", b"../a", b"nowhere", b"/etc/hostname", b".", b"..", b"b/c", b"./x"])
            children[nm] = ("link", t)
        elif r < 0.3 + links + specials:
            k = rng.choice(["fifo", "sock", "chr"])
            m = dict(mode=rng.choice([0o644, 0o600, 0o666, 0o755, 0o620]))
            if k == "chr":
                children[nm] = ("chr", rng.choice([(1, 3), (1, 5), (5, 0), (300, 70000), (4095, 1048575), (0, 0)]), m)
            else:
                children[nm] = (k, m)
        else:
            m = {}
            if meta:
                m = dict(mode=rng.choice([0o644, 0o600, 0o755, 0o444, 0o640, 0o777]),
                         mtime_ns=rng.choice([1_000_000_000_123_456_789, 1234567890_000000001, 4102444800_500000000,
                                              rng.randrange(10 ** 9, 2 * 10 ** 18)]))
            children[nm] = ("file", sizes.next(), m)
    return ("dir", children, {})


def materialise(node, path, tag=[0]):
    """path: bytes"""
    kind = node[0]
    if kind == "dir":
        os.mkdir(path)
        for nm, ch in node[1].items():
            materialise(ch, os.path.join(path, nm), tag)
        meta = node[2]
    elif kind == "file":
        tag[0] += 1
        meta = node[2]
        size = node[1]
        fsutil.make_file(path, size, meta.get("data", [(0, size)]), tag=tag[0], sync=False)
    elif kind == "link":
        os.symlink(node[1], path)
        return
    elif kind == "fifo":
        os.mkfifo(path, 0o644)
        meta = node[1]
    elif kind == "sock":
        s = socket.socket(socket.AF_UNIX)
        cwd = os.getcwd()
        try:
            os.chdir(os.path.dirname(path))
            s.bind(os.path.basename(path))
        finally:
            os.chdir(cwd)
            s.close()
        meta = node[1]
    elif kind in ("chr", "blk"):
        major, minor = node[1]
        os.mknod(path, (stat.S_IFCHR if kind == "chr" else stat.S_IFBLK) | 0o644, os.makedev(major, minor))
        meta = node[2]
    else:
        raise ValueError(kind)
    if "xattr" in meta:
        for k, v in meta["xattr"].items():
            os.setxattr(path, k, v)
    if "uid" in meta or "gid" in meta:
        os.chown(path, meta.get("uid", -1), meta.get("gid", -1))
    if "mode" in meta:
        os.chmod(path, meta["mode"])
    if "mtime_ns" in meta:
        os.utime(path, ns=(meta.get("atime_ns", meta["mtime_ns"]), meta["mtime_ns"]))


def walk_files(node, rel=b""):
    """yield (relative path bytes, node) in no particular order"""
    yield rel, node
    if node[0] == "dir":
        for nm, ch in node[1].items():
            yield from walk_files(ch, os.path.join(rel, nm) if rel else nm)


def total_file_size(node):
    return sum(n[1] for _, n in walk_files(node) if n[0] == "file")


def describe(node, limit=12):
    out = []
    for rel, n in walk_files(node):
        if len(out) >= limit:
            out.append("...")
            break
        out.append("%s:%s" % (os.fsdecode(rel) or ".", n[0] + (":%s" % n[1] if n[0] in ("file", "link") else "")))
    return out
