"""fsutil.py — file-system helpers for the harness: sparse file creation, raw
FIEMAP, SEEK_DATA/SEEK_HOLE layout, snapshots."""
import fcntl
import hashlib
import os
import stat
import struct

FS_IOC_FIEMAP = 0xC020660B
FIEMAP_EXTENT_LAST = 0x1
FIEMAP_EXTENT_SHARED = 0x2000
FICLONE = 0x40049409


def raw_fiemap(path, count=4096):
    """Return the file's full extent list [(logical, length, flags)] with one
    large request, or None when FIEMAP is unsupported."""
    fd = os.open(path, os.O_RDONLY)
    try:
        hdr = struct.pack("=QQIIII", 0, 0xFFFFFFFFFFFFFFFF, 0, 0, count, 0)
        buf = bytearray(hdr + b"\0" * (56 * count))
        try:
            fcntl.ioctl(fd, FS_IOC_FIEMAP, buf, True)
        except OSError as e:
            if e.errno == 95:
                return None
            raise
        mapped = struct.unpack_from("=I", buf, 20)[0]
        out = []
        for i in range(mapped):
            lg, ph, ln, _, _, fl = struct.unpack_from("=QQQQQI", buf, 32 + 56 * i)
            out.append((lg, ln, fl))
        return out
    finally:
        os.close(fd)


def seek_layout(path):
    """Data intervals [(s, e)] by the harness's own SEEK_DATA/SEEK_HOLE walk."""
    fd = os.open(path, os.O_RDONLY)
    try:
        size = os.fstat(fd).st_size
        out = []
        pos = 0
        while pos < size:
            try:
                d = os.lseek(fd, pos, os.SEEK_DATA)
            except OSError as e:
                if e.errno == 6:
                    break
                raise
            h = os.lseek(fd, d, os.SEEK_HOLE)
            out.append((d, h))
            pos = h
        return size, out
    finally:
        os.close(fd)


def tagged_bytes(tag, off, n):
    """Position-tagged, never-zero test data: byte at absolute offset i of file
    `tag` is a function of (tag, i), so misplaced or duplicated blocks show."""
    out = bytearray(n)
    base = (tag * 2654435761) & 0xFFFFFFFF
    for k in range(n):
        i = off + k
        v = (base + i * 31 + (i >> 8) * 17 + (i >> 16) * 7) & 0xFF
        out[k] = v if v else 1
    return bytes(out)


_TAG_CACHE = {}


def _row_table():
    t = _TAG_CACHE.get("rows")
    if t is None:
        t = [bytes((((c + k * 31) & 0xFF) or 1) for k in range(256)) for c in range(256)]
        _TAG_CACHE["rows"] = t
    return t


def tagged_bytes_fast(tag, off, n):
    """Same function as tagged_bytes, built from precomputed 256-byte rows."""
    rows = _row_table()
    out = []
    base = (tag * 2654435761) & 0xFFFFFFFF
    i = off
    end = off + n
    while i < end:
        r = i >> 8
        lo = i & 0xFF
        hi = min(256, lo + (end - i))
        c = (base + (r << 8) * 31 + r * 17 + (r >> 8) * 7) & 0xFF
        out.append(rows[c][lo:hi])
        i += hi - lo
    return b"".join(out)


def make_file(path, size, data_ranges, tag=1, sync=True):
    """Create `path` of apparent `size` with data exactly in data_ranges
    (list of (s, e)), everything else a hole."""
    fd = os.open(path, os.O_CREAT | os.O_TRUNC | os.O_WRONLY, 0o644)
    try:
        os.ftruncate(fd, size)
        for s, e in data_ranges:
            pos = s
            while pos < e:
                n = min(e - pos, 1 << 20)
                os.pwrite(fd, tagged_bytes_fast(tag, pos, n), pos)
                pos += n
        if sync:
            os.fsync(fd)
    finally:
        os.close(fd)


def zero_outside(path, ranges, size, written=None):
    """True iff every byte of the file outside `ranges` reads as zero.
    Returns (ok, first_bad_offset).  For files larger than 1 GiB whose written ranges the caller knows (`written`), only
    the parts of the gaps that were ever written are read: a byte of a freshly sized file that nobody wrote is zero."""
    rs = sorted(ranges)
    fd = os.open(path, os.O_RDONLY)
    try:
        pos = 0
        gaps = []
        for s, e in rs:
            if s > pos:
                gaps.append((pos, min(s, size)))
            pos = max(pos, e)
        if pos < size:
            gaps.append((pos, size))
        if written is not None and size > (1 << 30):
            gaps = [(max(s, ws), min(e, we)) for (s, e) in gaps for (ws, we) in written if max(s, ws) < min(e, we)]
        for s, e in gaps:
            p = s
            while p < e:
                n = min(e - p, 1 << 20)
                b = os.pread(fd, n, p)
                if not b:
                    break
                if b.count(0) != len(b):
                    for k, x in enumerate(b):
                        if x:
                            return False, p + k
                p += len(b)
        return True, None
    finally:
        os.close(fd)


def sha(path):
    h = hashlib.sha256()
    with open(path, "rb") as f:
        while True:
            b = f.read(1 << 20)
            if not b:
                break
            h.update(b)
    return h.hexdigest()
