"""C04 — no silent failure: a failed step always yields a non-zero exit."""
import os
import shutil

import core
import treecase
import xcp

ERRNOS = {"EIO": 5, "ENOSPC": 28, "EACCES": 13, "EMFILE": 24, "EROFS": 30, "EEXIST": 17, "EPERM": 1}
STAT = ("statx", "newfstatat", "stat", "lstat", "fstat")
AT_EMPTY_PATH = 0x1000


def world(d, kind):
    w = lambda p, c: open(os.path.join(d, p), "wb").write(c)
    if kind == "file":
        w("f", b"payload " * 2000)
        os.chmod(os.path.join(d, "f"), 0o640)
        os.utime(os.path.join(d, "f"), ns=(1_500_000_000_000_000_000, 1_500_000_000_123_456_789))
        os.setxattr(os.path.join(d, "f"), "user.k", b"v")
        return ["f", "g"], [("f", "g")]
    if kind == "bigfile":
        # one block far larger than any buffer the user-space fall-back might think of as `big enough`
        w("f", bytes((i * 7 + i // 251) % 256 for i in range(1000)) * 417)
        os.chmod(os.path.join(d, "f"), 0o600)
        return ["f", "g"], [("f", "g")]
    if kind == "overwrite-backup":
        os.mkdir(os.path.join(d, "dst"))
        w("f", b"new " * 3000)
        os.chmod(os.path.join(d, "f"), 0o600)
        w("dst/f", b"old")
        w("dst/f.~1~", b"older")
        return ["--backup", "numbered", "f", "dst/"], [("f", "dst/f")]
    if kind == "sparse":
        # the trailing hole / the whole of an all-hole file exist at the destination only through the sizing call
        import fsutil
        fsutil.make_file(os.path.join(d, "tail"), (1 << 20) + 4096, [(0, 8192)], tag=7, sync=True)
        fsutil.make_file(os.path.join(d, "allhole"), 1 << 20, [], tag=8, sync=True)
        os.mkdir(os.path.join(d, "dst"))
        return ["tail", "allhole", "dst/"], [("tail", "dst/tail"), ("allhole", "dst/allhole")]
    if kind == "glob":
        # sources selected by a pattern whose expansion lists several directories: a directory that cannot be listed at
        # that moment is a failed step like any other (it is reported by the expansion, before any driver thread exists)
        for sub, body in (("a", b"A" * 3000), ("b", b"B" * 5000), ("c", b"C" * 10)):
            os.makedirs(os.path.join(d, "src", sub))
            w("src/%s/f_%s.dat" % (sub, sub), body)
            w("src/%s/other.txt" % sub, b"not selected")
        os.mkdir(os.path.join(d, "dst"))
        return ["--glob", "src/*/*.dat", "dst/"], [("src/%s/f_%s.dat" % (x, x), "dst/f_%s.dat" % x) for x in "abc"]
    if kind == "tree":
        os.makedirs(os.path.join(d, "src", "sub", "deep"))
        os.mkdir(os.path.join(d, "dst"))
        w("src/a", b"a" * 3000)
        w("src/sub/b", b"b" * 40000)
        w("src/sub/deep/c", b"")
        os.chmod(os.path.join(d, "src", "sub", "b"), 0o755)
        os.symlink("a", os.path.join(d, "src", "l"))
        os.mkfifo(os.path.join(d, "src", "p"))
        return ["-r", "src", "dst"], None
    raise ValueError(kind)


def dest_correct(d, kind, pairs):
    """complete and correct destination, incl. requested mode and mtime of regular files"""
    if pairs is None:
        exp = treecase.expected_dest([os.fsencode(os.path.join(d, "src"))], os.fsencode(os.path.join(d, "dst")), False, False)
    else:
        exp = {os.fsencode(os.path.join(d, t)): ("file", os.fsencode(os.path.join(d, s))) for s, t in pairs}
    why = treecase.check_expected(exp)
    if why:
        return why
    for tp, (k, info) in exp.items():
        if k == "file":
            a, b = os.stat(info), os.stat(tp)
            if (a.st_mode & 0o7777) != (b.st_mode & 0o7777):
                return "mode of %r is %o, source has %o" % (tp, b.st_mode & 0o7777, a.st_mode & 0o7777)
            if a.st_mtime_ns != b.st_mtime_ns:
                return "mtime of %r not transferred" % tp
    if kind == "overwrite-backup":
        try:
            if open(os.path.join(d, "dst", "f.~2~"), "rb").read() != b"old" or open(os.path.join(d, "dst", "f.~1~"), "rb").read() != b"older":
                return "backup of the old version missing or an existing backup changed"
        except OSError:
            return "backup of the old version missing"
    return None


def classify(ref, ev, d, destroot):
    """input class of a fault point, from the reference trace"""
    s = ev["sys"]
    # src -> dst pairing per thread
    pair = {}
    last_src = {}
    for e in ref.trace:
        if e["sys"] == "openat" and e.get("ret", -1) is not None and (e.get("ret") or -1) >= 0:
            if e["a"][2] & os.O_CREAT:
                if e["tid"] in last_src:
                    pair[last_src[e["tid"]]] = e["p1"]
            elif (e["a"][2] & 3) == os.O_RDONLY and not (e["a"][2] & os.O_DIRECTORY):
                last_src[e["tid"]] = e["p1"]
    dsts = set(pair.values())
    under_dest = ev["p1"] == destroot or ev["p1"].startswith(destroot + "/") or ev["p1"].rstrip("/") == destroot
    if s in ("fchmod", "utimensat", "fsync", "fdatasync") and ev["p1"] in dsts:
        return "finalise-fault"
    if s in ("statx", "fstat") and ev["p1"] in pair:
        # metadata read of the source: in CopyHandle::new (propagated) or in finalisation (swallowed)?
        dst = pair[ev["p1"]]
        sized = [e["e"] for e in ref.trace if e["sys"] == "ftruncate" and e["p1"] == dst]
        if sized and ev["e"] > sized[0]:
            return "finalise-fault"
    if s in STAT and under_dest and not (s == "statx" and ev["a"][2] & AT_EMPTY_PATH) and ev["p1"] not in dsts | set(pair):
        return "stat-probe-fault"
    if s in STAT and (ev["p1"] in dsts or os.path.dirname(ev["p1"]) in (destroot,)) and not (s == "statx" and ev["a"][2] & AT_EMPTY_PATH):
        return "stat-probe-fault"
    return None


CODE = {"rename": 1, "ftruncate": 3, "copy_file_range": 5, "fchown": 6, "fsetxattr": 7, "fchmod": 8, "utimensat": 9,
        "fsync": 10, "symlinkat": 11, "symlink": 11, "unlink": 12, "unlinkat": 12, "mknodat": 13, "mkdir": 14, "mkdirat": 14}


def run(ctx, out):
    rng = ctx.rng
    quick = ctx.tier == "quick"
    sup = core.build_sup()
    out.rule = ("for small copies (single file with mode/mtime/xattr, overwrite with numbered backup, tree with nested dirs, link, "
                "FIFO, three files selected by a --glob pattern spanning three directories, one 417 KB file copied as ONE block) and both drivers, with --block-size 16KB and (file, tree) with --no-progress -v: a reference trace, then one run per (system call touching the sandbox) x errno from {EIO "
                "ENOSPC EACCES EMFILE EROFS EEXIST EPERM}, keyed by (syscall, path, n-th occurrence); exit 0 must imply a complete "
                "and correct destination incl. mode/mtime; thorough adds random pairs of faults; plus a failing mknod (reported only through the return value of the worker that meets it) under several worker counts and schedule seeds. non-trivial = the injection "
                "fired; distinct = (case, driver, call, errno)")
    d0 = ctx.work.fresh("c04")
    mcodes, mobs = [], []
    # option sets: the failure must surface whichever way the configuration routes it (with a progress bar the block
    # size is 16 KB and errors of block jobs travel over the update channel; --no-progress = one block per file, no bar)
    for (kind, optset) in [("file", "std"), ("overwrite-backup", "std"), ("tree", "std"), ("sparse", "std"),
                           ("file", "noprogress"), ("tree", "noprogress"), ("glob", "std"),
                           ("bigfile", "noprogress")]:
        for driver in ("parfile", "parblock"):
            d = os.path.join(d0, "%s_%s_%s" % (kind, driver, optset))
            if optset != "std" and quick and (kind, driver) == ("tree", "parfile"):
                continue

            def setup():
                shutil.rmtree(d, ignore_errors=True)
                os.makedirs(d)
                return world(d, kind)
            tail, pairs = setup()
            destroot = os.path.join(d, "dst") if kind not in ("file", "bigfile") else os.path.join(d, "g")
            argv = [ctx.bins["xcp"], "--driver", driver, "-w", "2"] + (["--block-size", "16KB"] if optset == "std" else ["--no-progress", "-v"]) + \
                ["--fsync", "--reflink", "never"] + tail
            out.count("options_" + optset)
            ref = xcp.run_supervised(sup, argv, d, d, tag="ref")
            out.case(("ref", kind, driver, optset), True)
            if ref.exit != 0 or dest_correct(d, kind, pairs):
                out.violation("fault-free reference run failed or produced a wrong destination",
                              dict(argv=argv[1:], exit=ref.exit, why=dest_correct(d, kind, pairs), stderr=ref.stderr[-300:]))
                continue
            calls = [e for e in ref.trace if "/.sup" not in e["p1"] and e["sys"] not in ("close", "exit_group", "clone3", "clone", "umask", "lseek")
                     and e["p1"]]
            seen = {}
            points = []
            for e in calls:
                key = (e["sys"], e["p1"])
                seen[key] = seen.get(key, 0) + 1
                points.append((e, seen[key]))
            names = sorted(ERRNOS)
            plans = []
            for i, (e, nth) in enumerate(points):
                errs = [names[i % len(names)]] if quick else names
                if e["sys"] in ("fsync", "fchmod", "utimensat", "ftruncate", "copy_file_range", "rename", "openat") and quick:
                    errs = sorted(set(errs + ["EIO"]))
                # the errno each kind of call is most likely to be special-cased for
                sharp = {"ftruncate": "EPERM", "getdents64": "EACCES", "symlink": "EEXIST", "symlinkat": "EEXIST", "mknodat": "EPERM",
                         "copy_file_range": "ENOSPC", "rename": "EACCES", "mkdir": "EEXIST", "fsetxattr": "ENOSPC",
                         "fchown": "EPERM"}.get(e["sys"])
                if e["sys"] == "openat":
                    sharp = "EACCES"
                if sharp:
                    errs = sorted(set(errs + [sharp]))
                if e["sys"] == "copy_file_range":
                    errs = sorted(set(errs + ["EPERM"]))     # `not available here`: the user-space fall-back copies this block
                if e["sys"] == "openat" and not (e["a"][2] & (os.O_CREAT | os.O_DIRECTORY)):
                    # a source file that "is not there" at the moment it is opened (it was there when the tree was walked)
                    errs = sorted(set(errs + ["ENOENT"]))
                for en in errs:
                    plans.append([(e, nth, en)])
            if not quick:
                for _ in range(150):
                    a, b = rng.sample(points, 2)
                    plans.append([(a[0], a[1], rng.choice(names)), (b[0], b[1], rng.choice(names))])
            for plan in plans:
                setup()
                rules = [("fail", dict(ERRNOS, ENOENT=2)[en], 0, e["sys"], nth, "=" + e["p1"]) for (e, nth, en) in plan]
                r = xcp.run_supervised(sup, argv, d, d, rules=rules, tag="f", timeout_ms=20000)
                fired = [x for x in r.trace if x.get("inj")]
                desc = [(e["sys"], e["p1"][len(d):], nth, en) for (e, nth, en) in plan]
                out.case(("fault", kind, driver, optset, tuple(desc)), nontrivial=bool(fired))
                out.count("fault_%s" % plan[0][0]["sys"])
                rep = dict(case=kind, driver=driver, argv=argv[1:], faults=desc, exit=r.exit, stderr=r.stderr[-300:])
                if r.meta.get("timeout"):
                    out.violation("xcp hung after an injected fault", rep)
                    continue
                if not fired:
                    continue
                if r.exit == 0:
                    why = dest_correct(d, kind, pairs)
                    if why:
                        classes = {classify(ref, e, d, destroot) for (e, nth, en) in plan}
                        if len(plan) == 1:
                            cls = next((c for c in classes if c), None)
                        else:
                            # several faults: the discrepancy is a known finding only if a fault of that class is in the plan
                            # AND the discrepancy is the one that class explains; anything else is reported
                            cls = None
                            if "finalise-fault" in classes and (why.startswith("mode of") or why.startswith("mtime of")):
                                cls = "finalise-fault"
                            elif "stat-probe-fault" in classes and ("missing" in why or "expected" in why or "backup" in why):
                                cls = "stat-probe-fault"
                        out.violation("exit 0 after %s but %s" % (desc, why), rep, cls=cls)
                # R1 vs the model's propagation table, single faults on operation-level calls
                if len(plan) == 1:
                    e = plan[0][0]
                    code = CODE.get(e["sys"])
                    if e["sys"] == "openat":
                        code = 2 if e["a"][2] & os.O_CREAT else (20 if not (e["a"][2] & os.O_DIRECTORY) else None)
                    if e["sys"] == "copy_file_range" and dict(ERRNOS, ENOENT=2)[plan[0][2]] in (1, 38, 18):
                        code = None      # ENOSYS/EPERM/EXDEV: user-space fall-back, not a failure (C05)
                    if code is not None and e["p1"] != destroot:
                        mcodes.append([code])
                        mobs.append((rep, r.exit))
            shutil.rmtree(d, ignore_errors=True)
    # ---- a failure that reaches main() ONLY through a worker's return value (a special file that cannot be made sends no Error
    #      update), taken by whichever of several workers happens to get it: every worker's result counts, under every schedule
    for driver in ("parfile", "parblock"):
        for w in ((2, 4) if quick else (2, 3, 4, 8)):
            for sd in ((1, 2, 3, 4) if quick else range(1, 13)):
                d = os.path.join(d0, "wk_%s_%d_%d" % (driver, w, sd))
                os.makedirs(os.path.join(d, "src"))
                for i in range(10):
                    open(os.path.join(d, "src", "f%02d" % i), "wb").write(b"x" * (3000 + i))
                os.mkfifo(os.path.join(d, "src", "f05a_pipe"))
                argv = [ctx.bins["xcp"], "-r", "-T", "--driver", driver, "-w", str(w), "src", "dst"]
                rules = [("fail", rng.choice([1, 28, 5]), 0, "mknodat", 1, "*")]
                r = xcp.run_supervised(sup, argv, d, d, rules=rules, tag="wk", timeout_ms=30000, seed=sd * 7919 + w, hold_permille=300, hold_maxms=4)
                fired = [x for x in r.trace if x.get("inj")]
                out.case(("worker-result-only", driver, w, sd), nontrivial=bool(fired))
                out.count("worker_result_only_runs")
                if fired and r.exit == 0:
                    out.violation("exit 0 although mknod of dst/f05a_pipe failed (a failure reported only by the return value of the worker that "
                                  "met it; %s, %d workers, schedule seed %d)" % (driver, w, sd),
                                  dict(argv=argv[1:], rules=rules, seed=sd * 7919 + w, exit=r.exit, stderr=r.stderr[-300:]))
                shutil.rmtree(d, ignore_errors=True)
    if ctx.model_ok and mcodes:
        res = core.run_model("run_fault_effect", mcodes, shard=400, tag="c04")
        for (rep, exitc), mo in zip(mobs, res):
            if (mo[0] == 0) != (exitc != 0):
                out.corr("R1-fault-propagation: model effect %d, xcp exit %d" % (mo[0], exitc), rep, mo, exitc)
    out.sample(dict(example_fault=mobs[0][0]["faults"], exit=mobs[0][1]) if mobs else "none")
