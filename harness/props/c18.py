"""C18 — --fsync flushes every destination file after its last write.

Direct oracle on supervisor traces: for every destination regular file
created by the run, an fsync/fdatasync of it is ENTERED after the exit of every
call that writes its data or size (copy_file_range, pwrite, write, ftruncate,
FICLONE, fallocate) and returns before exit_group — under random thread holds,
1..16 workers, both drivers, multi-block / empty / all-hole / trailing-hole
files, with the kernel copy available or not.  Without --fsync no fsync is
issued.  Correspondence: (R2a) the mutating action sequence of every file vs
Ops.copy_actions (fsync last); (R2b) the projected protocol history judged by
ConcOutcome.history_ok (finalisation after every block, exactly once)."""
import os
import shutil

import core
import fsutil
import xcp
from props import c06

DATA_SYS = ("copy_file_range", "pwrite64", "write", "ftruncate", "fallocate", "sendfile")


def make_world(rng, d, k):
    src = os.path.join(d, "src")
    os.makedirs(os.path.join(src, "sub", "deep"))
    files = {}
    bs = 16384
    layout = [("one.bin", 5000, None), ("empty", 0, None), ("sub/multi.bin", bs * rng.choice([2, 3, 5]) + rng.choice([0, 1, 777]), None),
              ("sub/deep/exact.bin", bs * rng.choice([1, 2, 4]), None),
              ("sub/big.bin", rng.choice([100000, 250000]), None)]
    if rng.random() < 0.8:
        layout.append(("allhole", 1 << 20, []))
        layout.append(("sub/tailhole", (1 << 20) + 4096, [(0, 8192)]))
        layout.append(("sub/headhole", (1 << 20) + 4096, [(1 << 20, (1 << 20) + 4096)]))
    for i, (rel, size, data) in enumerate(layout):
        p = os.path.join(src, rel)
        fsutil.make_file(p, size, data if data is not None else [(0, size)], tag=k * 10 + i + 1, sync=(data is not None))
        files[rel] = size
    # timestamps at the edges (before 1970, the epoch, far future): carrying them over is one step of the finalisation, the
    # flush is another
    for rel, ns in (("one.bin", -500_000_000), ("sub/multi.bin", -2_000_000_000_000_000_000), ("sub/big.bin", 0), ("empty", 4_102_444_800_000_000_001)):
        os.utime(os.path.join(src, rel), ns=(ns, ns))
    os.symlink("one.bin", os.path.join(src, "lnk"))
    # extended attributes on some sources: copying them is best effort (a refusal by the destination is only warned
    # about) and must not cost the flush
    for rel in ("one.bin", "sub/multi.bin"):
        try:
            os.setxattr(os.path.join(src, rel), "user.note", b"v" * rng.choice([5, 300]))
        except OSError:
            pass
    return files, bs


def check_trace(r, dst_root, want_fsync):
    """-> list of problems"""
    probs = []
    created = {}
    last_data = {}
    fsyncs = {}
    refused = set()
    exit_at = None
    for e in r.trace:
        s = e["sys"]
        if s == "exit_group":
            exit_at = e["e"]
            continue
        ret = e.get("ret")
        if ret is None:
            continue
        p1, p2 = e["p1"], e["p2"]
        if s in ("openat", "open") and p1.startswith(dst_root):
            flags = e["a"][2] if s == "openat" else e["a"][1]
            p1 = os.path.normpath(p1)        # as spelled by the caller (./name); descriptor-based calls report the resolved path
            if (flags & os.O_CREAT) and ret >= 0:
                created[p1] = e["x"]
                last_data[p1] = max(last_data.get(p1, 0), e["x"])
        elif s == "copy_file_range" and p2.startswith(dst_root) and ret >= 0:
            last_data[p2] = max(last_data.get(p2, 0), e["x"])
        elif s in DATA_SYS and p1.startswith(dst_root) and ret >= 0:
            last_data[p1] = max(last_data.get(p1, 0), e["x"])
        elif s == "ioctl" and e["a"][1] == xcp.FICLONE and p1.startswith(dst_root):
            last_data[p1] = max(last_data.get(p1, 0), e["x"])
        elif s in ("fsync", "fdatasync") and p1.startswith(dst_root):
            if e.get("inj"):
                refused.add(p1)      # this file's flush was refused by the injected answer: judged apart
            fsyncs.setdefault(p1, []).append((e["e"], e["x"], ret))
    for p in sorted(created):
        fs = fsyncs.get(p, [])
        if want_fsync:
            if not fs:
                probs.append("no fsync at all on %s" % p)
                continue
            good = [f for f in fs if f[0] > last_data[p] and (f[2] == 0 or p in refused)]
            if not good:
                probs.append("no fsync of %s entered after its last data/size call (last data exit %d, fsync entries %s)"
                             % (p, last_data[p], [f[0] for f in fs]))
            elif exit_at is not None and all(f[1] > exit_at for f in good):
                probs.append("fsync of %s had not returned when the process exited" % p)
        else:
            if fs:
                probs.append("fsync issued on %s without --fsync" % p)
    return probs, created


def run(ctx, out):
    rng = ctx.rng
    quick = ctx.tier == "quick"
    sup = core.build_sup()
    d0 = ctx.work.fresh("c18")
    out.rule = ("trees (source mtimes before 1970, at the epoch, in 2100) with single-block, multi-block (2..16 blocks of 16 KiB), empty, all-hole, leading- and trailing-hole files; "
                "both drivers, workers 1/2/4/16, random thread holds (several seeds), copy_file_range available or failing with "
                "ENOSYS/EXDEV (user-space fallback), extended attributes refused by the destination (ENOSPC/EPERM/ENOTSUP/E2BIG/EACCES: "
                "best effort, only warned about), ONE flush of the run refused (EINVAL/ENOSYS/EOPNOTSUPP/EIO: the others must still happen), single-file invocations with the destination spelled as a bare name / ./name / sub/name / absolute / a directory / -t DIR; a source truncated by another process while the flush is held; --fsync on (oracle: fsync entered after the last data/size call of the "
                "file and returned before exit; also when the run goes onto the result of the previous one) and off (oracle: no fsync); non-trivial = --fsync run with >= 2 workers; "
                "distinct = (case, driver, workers, seed, fsync, cfr)")
    ncases = 3 if quick else 20
    seeds = [1, 2, 3, 4] if quick else list(range(1, 13))
    minputs, mmeta = [], []
    hinputs, hmeta = [], []
    for k in range(ncases):
        d = os.path.join(d0, "case%d" % k)
        os.makedirs(d)
        files, bs = make_world(rng, d, k)
        runs = []
        for driver in ("parfile", "parblock"):
            for w in (1, 2, 4, 16):
                for sd in (seeds if w > 1 else seeds[:1]):
                    runs.append((driver, w, sd, True))
            runs.append((driver, 4, None, False))
        if quick:
            keep = [r for r in runs if not r[3]]
            rest = [r for r in runs if r[3]]
            rng.shuffle(rest)
            runs = keep + rest[:16]
        for (driver, w, sd, fs) in runs:
            dst = os.path.join(d, "dst")
            # every third flushed run goes ONTO THE RESULT of the previous run (every destination file exists already and is
            # truncated and rewritten): the flush is owed to every file written, new or not
            repeat = fs and os.path.isdir(dst) and rng.random() < 0.35
            out.count("onto_previous_result" if repeat else "fresh_destination")
            if not repeat:
                shutil.rmtree(dst, ignore_errors=True)
            else:
                try:
                    os.unlink(os.path.join(dst, "lnk"))      # re-creating an existing symbolic link fails by design
                except OSError:
                    pass
            argv = [ctx.bins["xcp"], "-r", "-T", "--driver", driver, "-w", str(w), "--block-size", str(bs)] + (["--fsync"] if fs else []) + ["src", "dst"]
            kw = {}
            cfr = None
            if sd is not None:
                kw = dict(seed=sd * 104729 + k, hold_permille=rng.choice([80, 200, 350]), hold_maxms=rng.choice([3, 8, 15]))
                if rng.random() < 0.25:
                    cfr = rng.choice([38, 18])
                    kw["rules"] = [("fail", cfr, 0, "copy_file_range", 0, "*")]
                    out.count("copy_file_range_unavailable")
                if fs and rng.random() < 0.3:
                    # ONE flush of the run is refused (a descriptor that cannot be synced: EINVAL / ENOSYS / EOPNOTSUPP / EIO):
                    # that says nothing about the other files, each of which must still be flushed
                    fe = rng.choice([22, 38, 95, 5])
                    kw["rules"] = kw.get("rules", []) + [("fail", fe, 0, rng.choice(["fsync", "fsync", "fdatasync"]), rng.choice([1, 1, 2, 3]), "*")]
                    out.count("one_fsync_refused_errno_%d" % fe)
                if rng.random() < 0.3:
                    # the destination refuses the attribute (no space for it / not permitted / unsupported / too big)
                    xe = rng.choice([28, 1, 95, 7, 13])
                    kw["rules"] = kw.get("rules", []) + [("fail", xe, 0, "fsetxattr", 0, "*")]
                    out.count("xattr_refused_errno_%d" % xe)
            r = xcp.run_supervised(sup, argv, d, d, tag="r", timeout_ms=60000, **kw)
            out.case((k, driver, w, sd, fs, cfr), nontrivial=(fs and w >= 2))
            out.count("driver_" + driver)
            out.count("fsync_on" if fs else "fsync_off")
            rep = dict(case=k, argv=argv[1:], cfr_errno=cfr, seed=kw.get("seed"), files=files, onto_previous_result=repeat)
            fsync_refused = any(ru[3] in ("fsync", "fdatasync") for ru in kw.get("rules", []))
            rep["rules"] = kw.get("rules", [])
            if r.exit != 0:
                if not fsync_refused:      # a refused flush may (and ideally does) fail the run
                    out.violation("run failed (exit %d): %s" % (r.exit, r.stderr[-200:]), rep)
                continue
            dst_root = os.path.join(d, "dst")
            probs, created = check_trace(r, dst_root, fs)
            for pr in probs[:3]:
                out.violation(pr + " (driver %s, %d workers, seed %r)" % (driver, w, kw.get("seed")), rep)
            missing = [rel for rel in files if os.path.join(dst_root, rel) not in created]
            if missing:
                out.violation("destination files never created: %s" % missing, rep)
            if fsync_refused:
                continue                   # the refused file's action list is not the model's: direct oracle only
            # R2a: per file mutating action sequence vs Ops.copy_actions
            for p in sorted(created):
                codes = xcp.mut_codes(r, p)
                st_len = os.path.getsize(p)
                has_data = 5 in codes
                issued = 1 if 4 in codes else 0
                try:
                    nx = len(os.listxattr(os.path.join(d, "src", os.path.relpath(p, dst_root))))
                except OSError:
                    nx = 0
                if any(ru[3] == "fsetxattr" for ru in kw.get("rules", [])):
                    nx = 0          # refused calls change nothing: they are not among the mutating actions compared
                minputs.append([0, 0, 0, 1 if fs else 0, 0, 0, 0, st_len, 0, issued, 1 if has_data else 0, nx])
                mmeta.append((dict(rep, file=p[len(d):]), codes))
            # R2b: protocol history
            pfiles, events, problems = c06.project(r, os.path.join(d, "src"), dst_root, bs)
            for pr in problems[:2]:
                out.violation(pr, rep)
            dense = True
            for p, f in pfiles.items():
                if f["kind"] == 1:
                    rel = os.path.relpath(p, dst_root)
                    f["len"] = files.get(rel, 0)
            # sparse files are written by extent, not by the dense block grid: judge only the dense ones
            sparse = {os.path.join(dst_root, rel) for rel in files if rel in ("allhole", "sub/tailhole", "sub/headhole")}
            pf2 = {p: f for p, f in pfiles.items() if p not in sparse}
            ev2 = [e for e in events if e[2] not in sparse]
            enc, paths = c06.encode_history(pf2, ev2, bs)
            hinputs.append(enc)
            hmeta.append((rep, paths, driver, w))
        shutil.rmtree(d, ignore_errors=True)
    # ---- single-file invocations, every way of SPELLING the destination: a bare name in the working directory, ./name,
    #      below a sub-directory, absolute, an existing directory with and without a trailing slash, -t DIR
    kk = 0
    for driver in ("parfile", "parblock"):
        for spelling in ("bare", "dot", "sub", "abs", "dir", "dirslash", "targetdir", "bare-T"):
            for size in ((70000,) if quick else (0, 1, 70000, 300000)):
                kk += 1
                d = os.path.join(d0, "one%d" % kk)
                os.makedirs(os.path.join(d, "sub"))
                os.makedirs(os.path.join(d, "outdir"))
                fsutil.make_file(os.path.join(d, "one.bin"), size, [(0, size)], tag=kk, sync=False)
                tail = {"bare": ["one.bin", "copy.bin"], "dot": ["one.bin", "./copy.bin"], "sub": ["one.bin", "sub/copy.bin"],
                        "abs": ["one.bin", os.path.join(d, "copy.bin")], "dir": ["one.bin", "outdir"], "dirslash": ["one.bin", "outdir/"],
                        "targetdir": ["--target-directory", "outdir", "one.bin"], "bare-T": ["-T", "one.bin", "copy.bin"]}[spelling]
                w = rng.choice([1, 2, 4])
                argv = [ctx.bins["xcp"], "--driver", driver, "-w", str(w), "--block-size", "16384", "--fsync"] + tail
                r = xcp.run_supervised(sup, argv, d, d, tag="o", timeout_ms=60000, seed=rng.randrange(1 << 30), hold_permille=150, hold_maxms=4)
                out.case(("single-file", driver, spelling, size), nontrivial=True)
                out.count("single_file_destination_" + spelling)
                rep = dict(kind="single file, destination spelled %r" % tail[-1], argv=argv[1:], exit=r.exit, stderr=r.stderr[-200:])
                if r.exit != 0:
                    out.violation("run failed (exit %d): %s" % (r.exit, r.stderr[-200:]), rep)
                else:
                    probs, created = check_trace(r, d + "/", True)
                    created = {p_: v for p_, v in created.items() if "/.sup/" not in p_}
                    for pr in [x for x in probs if "/.sup/" not in x][:2]:
                        out.violation(pr + " (driver %s, %d workers)" % (driver, w), rep)
                    if not created:
                        out.violation("destination file never created", rep)
                shutil.rmtree(d, ignore_errors=True)
    # ---- the SOURCE is truncated by another process while the destination's flush is in progress (every fsync / fdatasync is held
    #      1.5 s; the environment acts once the destination holds all the bytes): whatever xcp makes of that, nothing may write to
    #      or resize the destination after its last flush
    import time
    for driver in ("parfile", "parblock"):
        d = os.path.join(d0, "shrink_%s" % driver)
        os.makedirs(d)
        size = 3 * (1 << 20) + 4321
        fsutil.make_file(os.path.join(d, "in.bin"), size, [(0, size)], tag=91, sync=True)
        acted = []

        def env(d=d, size=size, acted=acted):
            t0 = time.time()
            while time.time() - t0 < 20:
                try:
                    if os.path.getsize(os.path.join(d, "out.bin")) == size and \
                            open(os.path.join(d, "out.bin"), "rb").read() == open(os.path.join(d, "in.bin"), "rb").read():
                        break
                except OSError:
                    pass
                time.sleep(0.02)
            try:
                os.truncate(os.path.join(d, "in.bin"), 1000)
                acted.append(1)
            except OSError:
                pass
        argv = [ctx.bins["xcp"], "--fsync", "--driver", driver, "-w", "4", "--block-size", str(1 << 20), "in.bin", "out.bin"]
        rules = [("hold", 1500, 0, "fsync", 0, "*"), ("hold", 1500, 0, "fdatasync", 0, "*")]
        r = xcp.run_supervised(sup, argv, d, d, rules=rules, tag="sh", timeout_ms=60000, during=env, during_delay=0.0)
        out.case(("source-truncated-during-the-flush", driver), nontrivial=bool(acted))
        out.count("source_truncated_during_the_flush")
        if r.exit == 0:
            probs, created = check_trace(r, d + "/", True)
            for pr in [x for x in probs if "/.sup/" not in x and "out.bin" in x][:1]:
                out.violation(pr + " (the source was truncated by another process while the flush was in progress; %s)" % driver,
                              dict(argv=argv[1:], rules=rules, environment="truncate in.bin to 1000 bytes once out.bin is complete", exit=r.exit, stderr=r.stderr[-200:]))
        shutil.rmtree(d, ignore_errors=True)
    if ctx.model_ok and minputs:
        res = core.run_model("run_copy_actions", minputs, shard=40, tag="c18a")
        for (rep, codes), mo in zip(mmeta, res):
            if mo[0] != 1 or mo[1:] != codes:
                out.corr("R2-copy-op-actions (Ops.copy_actions)", rep, mo, codes)
        res = core.run_model("run_history", hinputs, shard=8, tag="c18b")
        for (rep, paths, driver, w), mo in zip(hmeta, res):
            if mo[0] != 1:
                out.corr("R2-history (ConcOutcome.history_ok)", rep, dict(ok=mo[0], phases=mo[1:][:20]), "trace projection")
    out.extra["files_compared_with_copy_actions"] = len(minputs)
    out.extra["histories_judged_in_coq"] = len(hinputs)
