"""C10 — permissions, timestamps, xattrs and ownership are preserved as requested."""
import os
import shutil
import time

import core
import fsutil
import xcp

MODES_CORE = [0o644, 0o600, 0o755, 0o000, 0o777, 0o444, 0o4755, 0o2755, 0o6755, 0o1777, 0o7777, 0o4000, 0o2000, 0o1000,
              0o2644, 0o6644, 0o4711, 0o2070, 0o001, 0o002, 0o004, 0o010, 0o020, 0o040, 0o100, 0o200, 0o400]
MTIMES = [1_000_000_000_123_456_789, 946_684_800_000_000_001, 4_102_444_800_500_000_000, 1, 1_700_000_000_999_999_999,
          86_400_000_000_000,
          # the epoch itself and times BEFORE it (negative seconds, with and without a nanosecond part), back to 1901
          0, -1, -500_000_000, -14_182_940_000_000_000, -2_000_000_000_000_000_000 + 123]


def u64(v):
    """times before the epoch are negative: the model carries a time as an opaque natural number"""
    return v if v >= 0 else (1 << 64) + v
XATTRS = [{}, {"user.a": b"1"}, {"user.comment": b"hello world", "user.empty": b"", "user.bin": bytes(range(256))},
          # attribute NAMES are byte strings too: Latin-1, bytes that are no UTF-8 at all, UTF-8 beyond ASCII
          {os.fsdecode(b"user.caf\xe9"): b"latin-1 name", os.fsdecode(b"user.\xff\xfe.bin"): b"\x00\x01", "user.\u65e5\u672c": b"utf-8 name", "user.plain": b"p"}]
IDS = [(0, 0), (1000, 1000), (1234, 42), (65534, 65534), (0, 7)]


def name_id(name):
    return int.from_bytes(os.fsencode(name)[:7], "big")


def run(ctx, out):
    rng = ctx.rng
    quick = ctx.tier == "quick"
    sup = core.build_sup()
    d0 = ctx.work.fresh("c10")
    out.rule = ("single regular files (dense, and sparse with a hole in the middle / at the end / all hole): modes covering all 12 permission bits (thorough: all 4096), mtimes past/future/sub-second/the epoch/before 1970 back to 1906, "
                "user xattr sets, uid/gid pairs (root), every combination of --no-perms/--no-timestamps/--ownership(/--fsync), "
                "fresh and pre-existing destinations (other mode/owner/xattrs), both drivers, multi-block files with 4 workers "
                "under random thread holds; plus trees of 8 files in which ONE best-effort xattr call is refused: every other file "
                "keeps its exact metadata; plus copies made by a NON-root process that may change owners (setpriv: uid 4242 with ambient "
                "CAP_CHOWN/FOWNER/FSETID/DAC_OVERRIDE), with and without --ownership, and by an unprivileged owner (uid 65534, no capabilities) of set-id files; non-trivial = mode with a set-id/sticky bit, or xattrs, or non-root ids, or a flag; "
                "distinct = distinct case tuple")
    modes = MODES_CORE if quick else list(range(0, 0o10000))
    cases = []
    for mode in modes:
        nflag = 2 if quick else 1
        for _ in range(nflag):
            flags = [f for f in ("--no-perms", "--no-timestamps", "--ownership", "--fsync") if rng.random() < 0.35]
            cases.append(dict(mode=mode, mtime=rng.choice(MTIMES), xattr=rng.choice(XATTRS), ids=rng.choice(IDS), flags=flags,
                              driver=rng.choice(["parfile", "parblock"]), prior=rng.choice([None, None, 0o600, 0o4755, 0o6775]),
                              size=rng.choice([0, 10, 5000, 20000]), bs=rng.choice([1000, 4096, 1 << 20]),
                              workers=rng.choice([1, 4])))
    # every flag combination with a set-id mode and ownership
    for np in (0, 1):
        for nt in (0, 1):
            for ow in (0, 1):
                flags = (["--no-perms"] if np else []) + (["--no-timestamps"] if nt else []) + (["--ownership"] if ow else [])
                for driver in ("parfile", "parblock"):
                    cases.append(dict(mode=0o6755, mtime=MTIMES[0], xattr=XATTRS[2], ids=(1234, 42), flags=flags, driver=driver,
                                      prior=rng.choice([None, 0o4700]), size=9000, bs=1000, workers=4))
    # ownership: every id pair explicitly (same uid as the copying process with another group, set-gid, both differ),
    # fresh and pre-existing destinations, both drivers
    for ids in IDS + [(0, 4321), (4321, 0)]:
        for mode in (0o644, 0o2755, 0o6755):
            for driver in ("parfile", "parblock"):
                cases.append(dict(mode=mode, mtime=MTIMES[1], xattr=XATTRS[1], ids=ids, flags=["--ownership"], driver=driver,
                                  prior=(None if mode != 0o2755 else 0o600), size=3000, bs=1000, workers=2))
    minputs = []
    obs = []
    for k, c in enumerate(cases):
        d = os.path.join(d0, "c%d" % k)
        os.makedirs(d)
        src, dst = os.path.join(d, "s"), os.path.join(d, "t")
        # every fifth case is a SPARSE file (a hole in the middle, at the end, or nothing but a hole): its data transfer moves
        # fewer bytes than its length, which says nothing about its metadata
        holes = [None, "mid", "tail", "all"][(k // 5) % 4] if k % 5 == 4 else None
        if holes:
            c["size"] = 262144 + (k % 3)
            c["holes"] = holes
            data = {"mid": [(0, 4096), (200000, c["size"])], "tail": [(0, 8192)], "all": []}[holes]
            fsutil.make_file(src, c["size"], data, tag=k + 1, sync=True)
            out.count("sparse_source_" + holes)
        else:
            fsutil.make_file(src, c["size"], [(0, c["size"])], tag=k + 1, sync=False)
        for a, v in c["xattr"].items():
            os.setxattr(src, a, v)
        os.chown(src, *c["ids"])
        os.chmod(src, c["mode"])
        os.utime(src, ns=(c["mtime"] - 5, c["mtime"]))
        c["mtime"] = os.stat(src).st_mtime_ns       # what the file system stored (it may clamp times outside its range)
        dst_prior = None
        if c["prior"] is not None:
            open(dst, "wb").write(b"old" * 100)
            os.setxattr(dst, "user.old", b"kept")
            os.chown(dst, 7, 8)
            os.chmod(dst, c["prior"])
            os.utime(dst, ns=(5_000_000_000, 6_000_000_000))
            st = os.stat(dst)
            dst_prior = dict(mode=st.st_mode & 0o7777, uid=7, gid=8, mtime=st.st_mtime_ns, xattr={"user.old": b"kept"})
        argv = [ctx.bins["xcp"], "--driver", c["driver"], "-w", str(c["workers"]), "--block-size", str(c["bs"]),
                "--reflink", "never"] + c["flags"] + [src, dst]
        t_start = time.time_ns()
        run_ = xcp.run_supervised(sup, argv, d, d, tag="m", umask=0o022, seed=rng.randrange(1 << 30),
                                  hold_permille=200 if c["workers"] > 1 else 0, hold_maxms=2)
        sst = os.stat(src)
        rep = dict(case={k2: (oct(v) if k2 in ("mode", "prior") and v is not None else repr(v)) for k2, v in c.items()},
                   argv=argv, exit=run_.exit, stderr=run_.stderr[-300:])
        nontriv = bool(c["mode"] & 0o7000) or bool(c["xattr"]) or c["ids"] != (0, 0) or bool(c["flags"])
        out.case(("meta",) + tuple(sorted((k2, repr(v)) for k2, v in c.items())), nontriv)
        out.count("flags_%s" % ("+".join(f.strip("-") for f in c["flags"]) or "none"))
        if run_.exit != 0:
            out.violation("plain copy failed: exit %d" % run_.exit, rep)
            shutil.rmtree(d, ignore_errors=True)
            continue
        dstst = os.stat(dst)
        dx = {a: os.getxattr(dst, a) for a in os.listxattr(dst)}
        np_, nt_, ow_ = "--no-perms" in c["flags"], "--no-timestamps" in c["flags"], "--ownership" in c["flags"]
        why = None
        if not np_:
            if dstst.st_mode & 0o7777 != c["mode"]:
                why = "mode %o copied as %o" % (c["mode"], dstst.st_mode & 0o7777)
            for a, v in c["xattr"].items():
                if dx.get(a) != v:
                    why = "xattr %s not copied" % a
        else:
            exp = (dst_prior["mode"] if dst_prior else 0o644)
            if not ow_ and dstst.st_mode & 0o7777 != exp:
                why = "--no-perms: mode is %o, expected the %s mode %o" % (dstst.st_mode & 0o7777,
                                                                          "previous" if dst_prior else "default", exp)
            if any(a in dx for a in c["xattr"]):
                why = "--no-perms transferred xattrs"
        if not nt_:
            if dstst.st_mtime_ns != c["mtime"]:
                why = "mtime %d copied as %d" % (c["mtime"], dstst.st_mtime_ns)
        else:
            if dstst.st_mtime_ns < t_start - 2_000_000_000 or dstst.st_mtime_ns == c["mtime"]:
                why = "--no-timestamps: destination mtime %d is not current" % dstst.st_mtime_ns
        if ow_:
            if (dstst.st_uid, dstst.st_gid) != c["ids"]:
                why = "--ownership: owner %s copied as %s" % (c["ids"], (dstst.st_uid, dstst.st_gid))
        else:
            exp_ids = (7, 8) if dst_prior else (0, 0)
            if (dstst.st_uid, dstst.st_gid) != exp_ids:
                why = "owner changed to %s without --ownership" % ((dstst.st_uid, dstst.st_gid),)
        if why:
            out.violation(why, rep)
        # model: final metadata + action order
        names = sorted(c["xattr"])
        sx = [x for a in sorted(os.listxattr(src)) for x in (name_id(a), len(os.getxattr(src, a)))]
        if dst_prior:
            dmeta = [dst_prior["mode"], 7, 8, 5_000_000_000, 6_000_000_000, 1, name_id("user.old"), 4]
        else:
            dmeta = [0o644, 0, 0, 0, 0, 0]
        minputs.append([int(np_), int(nt_), int(ow_), int("--fsync" in c["flags"]),
                        c["mode"], c["ids"][0], c["ids"][1], 0, u64(c["mtime"]), len(sx) // 2] + sx + dmeta)
        acts = []
        for kind, e in xcp.file_events(run_, dst):
            if kind == "chown":
                acts += [0, e["a"][1], e["a"][2]]
            elif kind == "setxattr":
                acts += [1, 0, 0]
            elif kind == "chmod":
                acts += [2, e["a"][1] & 0o7777, 0]
            elif kind == "utimens":
                acts += [3, 0, 0]
            elif kind == "fsync":
                acts += [4, 0, 0]
        # data after any metadata action?
        fe = xcp.file_events(run_, dst)
        first_meta = next((i for i, (kk, _) in enumerate(fe) if kk in ("chown", "chmod", "utimens", "setxattr", "fsync")), None)
        if first_meta is not None and any(kk == "data" and ee["x"] > fe[first_meta][1]["e"] for kk, ee in fe[first_meta:]):
            out.violation("metadata applied before the file's last write", rep)
        obs.append((rep, acts, [dstst.st_mode & 0o7777, dstst.st_uid, dstst.st_gid, u64(dstst.st_mtime_ns)], nt_))
        shutil.rmtree(d, ignore_errors=True)
    # ---- trees: what happened to ONE file's metadata says nothing about the next.  Eight files with distinct modes, mtimes,
    #      user xattrs (and owners), both drivers, 1 / 4 workers; the supervisor refuses one best-effort call (an xattr call
    #      of the first / third file it sees: EPERM, ENOSPC, EOPNOTSUPP, E2BIG) — only a warning for that file; every
    #      OTHER file must arrive with its exact mode, sub-second mtime, every user xattr (and owner with --ownership)
    ntree = 6 if quick else 60
    for k in range(ntree):
        d = os.path.join(d0, "t%d" % k)
        os.makedirs(os.path.join(d, "src", "sub"))
        metas = {}
        for i in range(8):
            rel = ("f%d" % i) if i % 3 else os.path.join("sub", "g%d" % i)
            p = os.path.join(d, "src", rel)
            fsutil.make_file(p, 100 + 3000 * i, [(0, 100 + 3000 * i)], tag=k * 8 + i + 1, sync=False)
            xa = {"user.note%d" % i: b"v%d" % i * (i + 1), "user.common": b"c"}
            for a, v in xa.items():
                os.setxattr(p, a, v)
            ids = rng.choice(IDS)
            os.chown(p, *ids)
            mode = rng.choice([0o644, 0o600, 0o2750, 0o4755, 0o640, 0o444])
            os.chmod(p, mode)
            mt = rng.choice(MTIMES) + i
            os.utime(p, ns=(mt - 5, mt))
            metas[rel] = (mode, mt, xa, ids)
        driver = rng.choice(["parfile", "parblock"])
        w = rng.choice([1, 4])
        own = rng.random() < 0.4
        what = rng.choice(["fsetxattr", "fsetxattr", "fgetxattr", "flistxattr", "none"])
        errno = rng.choice([1, 28, 95, 7])
        nth = rng.choice([1, 1, 3])
        rules = [] if what == "none" else [("fail", errno, 0, what, nth, "*")]
        argv = [ctx.bins["xcp"], "-r", "-T", "--driver", driver, "-w", str(w), "--reflink", "never"] + (["--ownership"] if own else []) + ["src", "dst"]
        r = xcp.run_supervised(sup, argv, d, d, rules=rules, tag="t", umask=0o022, timeout_ms=60000)
        hit = {e["p1"] for e in r.trace if e.get("inj")}
        # the refused call names the source (get/list) or the destination (set) of ONE file: that file is exempt
        exempt = {os.path.relpath(h, os.path.join(d, "src" if h.startswith(os.path.join(d, "src")) else "dst")) for h in hit}
        out.case(("meta-tree", k, driver, w, own, what, errno, nth), True)
        out.count("tree_refused_" + what)
        rep = dict(argv=argv[1:], rules=rules, refused_for=sorted(exempt), exit=r.exit, stderr=r.stderr[-300:])
        if r.exit != 0:
            out.violation("tree copy failed (exit %d) although only a best-effort xattr call was refused" % r.exit, rep)
        else:
            for rel, (mode, mt, xa, ids) in metas.items():
                if rel in exempt:
                    continue
                pd = os.path.join(d, "dst", rel)
                try:
                    st = os.stat(pd)
                    dx = {a: os.getxattr(pd, a) for a in os.listxattr(pd)}
                except OSError as ex:
                    out.violation("%s missing after exit 0 (%s)" % (rel, ex), rep)
                    break
                why = None
                if st.st_mode & 0o7777 != mode:
                    why = "mode %o copied as %o" % (mode, st.st_mode & 0o7777)
                elif st.st_mtime_ns != mt:
                    why = "mtime %d copied as %d" % (mt, st.st_mtime_ns)
                elif any(dx.get(a) != v for a, v in xa.items()):
                    why = "xattrs %s not copied" % sorted(a for a, v in xa.items() if dx.get(a) != v)
                elif own and (st.st_uid, st.st_gid) != ids:
                    why = "owner %s copied as %s" % (ids, (st.st_uid, st.st_gid))
                if why:
                    out.violation("%s: %s — after an xattr call was refused for ANOTHER file (%s) of the same run"
                                  % (rel, why, sorted(exempt) or "none"), rep)
                    break
        shutil.rmtree(d, ignore_errors=True)
    # ---- the copying process is NOT root but may change owners (a service account holding CAP_CHOWN, CAP_FOWNER, ...): what is
    #      requested does not depend on who asks — with --ownership the source's uid AND gid, without it the creator's
    import subprocess
    CAPS = "+chown,+fowner,+fsetid,+dac_override"
    SVC = ["setpriv", "--reuid", "4242", "--regid", "4242", "--clear-groups", "--inh-caps", CAPS, "--ambient-caps", CAPS, "--"]
    can = shutil.which("setpriv") and os.geteuid() == 0 and \
        subprocess.run(SVC + ["sh", "-c", 'grep -q "^CapEff:.*[1-9a-f]" /proc/self/status'], capture_output=True).returncode == 0
    if not can:
        out.count("service_account_runs_skipped_no_ambient_caps")
    else:
        k = 0
        for driver in ("parfile", "parblock"):
            for ids in [(2000, 3000), (0, 0), (4242, 3000), (2001, 4242), (0, 3001)]:
                for own in ((True,) if quick and ids != (2000, 3000) else (True, False)):
                    k += 1
                    d = os.path.join(d0, "svc%d" % k)
                    os.makedirs(d)
                    os.chmod(d, 0o777)
                    src, dst = os.path.join(d, "s"), os.path.join(d, "t")
                    size = rng.choice([1, 5000, 70000])
                    fsutil.make_file(src, size, [(0, size)], tag=k, sync=False)
                    mode = rng.choice([0o644, 0o600, 0o4755, 0o2750])
                    os.chown(src, *ids)
                    os.chmod(src, mode)
                    argv = SVC + [ctx.bins["xcp"], "--driver", driver, "-w", "2", "--reflink", "never"] + (["--ownership"] if own else []) + [src, dst]
                    r = xcp.run_plain(argv, d)
                    out.case(("service-account", driver, ids, own, mode), True)
                    out.count("service_account_runs")
                    rep = dict(kind="copy by uid 4242 holding CAP_CHOWN/CAP_FOWNER/CAP_FSETID/CAP_DAC_OVERRIDE", argv=argv, source_owner=ids,
                               source_mode=oct(mode), exit=r.exit, stderr=r.stderr[-300:])
                    if r.exit != 0:
                        out.violation("plain copy by a capable non-root process failed: exit %d" % r.exit, rep)
                    else:
                        st = os.stat(dst)
                        want = ids if own else (4242, 4242)
                        if (st.st_uid, st.st_gid) != want:
                            out.violation("%s: owner %s copied as %s by a non-root process that may change owners"
                                          % ("--ownership" if own else "no --ownership", ids, (st.st_uid, st.st_gid)), rep)
                        elif st.st_mode & 0o7777 != mode:
                            out.violation("mode %o copied as %o by a non-root process that may change owners" % (mode, st.st_mode & 0o7777), rep)
                    shutil.rmtree(d, ignore_errors=True)
    # ---- ... and a caller with NO capability at all (uid 65534) copying its own files: the kernel strips set-id bits on every
    #      write by such a caller, so whatever mode is applied before the last write does not survive — the final mode does
    NOBODY = ["setpriv", "--reuid", "65534", "--regid", "65534", "--clear-groups", "--inh-caps=-all", "--"]
    can2 = shutil.which("setpriv") and os.geteuid() == 0 and subprocess.run(NOBODY + ["true"], capture_output=True).returncode == 0
    if not can2:
        out.count("unprivileged_runs_skipped")
    else:
        k = 0
        for driver in ("parfile", "parblock"):
            for mode in (0o4755, 0o2755, 0o6711, 0o640, 0o1644):
                for prior in ((False,) if quick else (False, True)):
                    k += 1
                    d = os.path.join(d0, "nob%d" % k)
                    os.makedirs(d)
                    os.chmod(d, 0o777)
                    src, dst = os.path.join(d, "s"), os.path.join(d, "t")
                    size = rng.choice([5000, 70000, 300000])
                    fsutil.make_file(src, size, [(0, size)], tag=k, sync=False)
                    os.chown(src, 65534, 65534)
                    os.chmod(src, mode)
                    os.utime(src, ns=(10 ** 18, 10 ** 18 + 7))
                    if prior:
                        open(dst, "wb").write(b"old")
                        os.chown(dst, 65534, 65534)
                    argv = NOBODY + [ctx.bins["xcp"], "--driver", driver, "-w", "2", "--block-size", str(rng.choice([65536, 1 << 20])), "--reflink", "never", src, dst]
                    r = xcp.run_plain(argv, d)
                    out.case(("unprivileged", driver, mode, prior), True)
                    out.count("unprivileged_runs")
                    rep = dict(kind="copy by uid 65534 without capabilities of a file it owns", argv=argv, source_mode=oct(mode), exit=r.exit, stderr=r.stderr[-300:])
                    if r.exit != 0:
                        out.violation("plain copy by an unprivileged owner failed: exit %d" % r.exit, rep)
                    else:
                        st = os.stat(dst)
                        if st.st_mode & 0o7777 != mode:
                            out.violation("mode %o copied as %o by an unprivileged owner (set-id bits do not survive a write made after them)"
                                          % (mode, st.st_mode & 0o7777), rep)
                        elif st.st_mtime_ns != 10 ** 18 + 7:
                            out.violation("mtime not carried over by an unprivileged owner", rep)
                    shutil.rmtree(d, ignore_errors=True)
    if ctx.model_ok and minputs:
        res = core.run_model("run_finalise", minputs, shard=40, tag="c10")
        for (rep, acts, final, nt_), mo in zip(obs, res):
            mfinal = [mo[0], mo[1], mo[2], mo[4]]
            macts = mo[5:]
            # normalise model actions: xattr/utimens args are not compared
            norm = []
            for i in range(0, len(macts), 3):
                t = macts[i]
                norm += [t, macts[i + 1] if t in (0, 2) else 0, macts[i + 2] if t == 0 else 0]
            if norm != acts:
                out.corr("R2-finalise-actions", rep["case"], norm, acts)
            if mfinal[:3] != final[:3] or (not nt_ and mfinal[3] != final[3]):
                out.corr("R1-final-metadata", rep["case"], mfinal, final)
    out.sample(dict(case=obs[0][0]["case"], actions=obs[0][1], final=obs[0][2]) if obs else "none")
