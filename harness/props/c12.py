"""C12 — progress updates are truthful, never exceed 100%, and the stream ends."""
import os
import shutil
import subprocess

import core
import trees
import xcp

U64MAX = (1 << 64) - 1


def run_channel_r0(ctx, out):
    """R0: ChannelUpdater::send batching vs chan_deliver on generated send sequences"""
    rng = ctx.rng
    quick = ctx.tier == "quick"
    cases = []
    for _ in range(150 if quick else 4000):
        bs = rng.choice([1, 2, 7, 100, 4096, 1 << 20, U64MAX, rng.randrange(1, 10000)])
        n = rng.randrange(0, 25)
        seq = []
        for _i in range(n):
            r = rng.random()
            if r < 0.15:
                seq.append(("S", rng.randrange(0, 10 ** 7)))
            elif r < 0.2:
                seq.append(("E", 0))
            else:
                v = rng.choice([0, 1, bs - 1 if bs < 10 ** 9 else 5, bs if bs < 10 ** 9 else 9, bs + 1 if bs < 10 ** 9 else 11,
                                rng.randrange(0, 3 * min(bs, 10 ** 6) + 2)])
                seq.append(("C", max(0, v)))
        cases.append((bs, seq))
    enc = []
    impl = []
    for bs, seq in cases:
        txt = "".join("%s %d\n" % (k, v) for k, v in seq)
        r = subprocess.run([ctx.bins["probe"], "channel", str(bs)], input=txt, capture_output=True, text=True, timeout=60)
        impl.append(r.stdout.strip().split("\n"))
        enc.append([bs] + [x for k, v in seq for x in ({"S": 0, "C": 1, "E": 2}[k], v)])
    model = core.run_model("run_chan", enc, shard=100, tag="c12c") if ctx.model_ok else [None] * len(cases)
    for (bs, seq), lines, mo in zip(cases, impl, model):
        nsent_c = sum(1 for k, _ in seq if k == "C")
        out.case(("chan", bs, tuple(seq)), nontrivial=nsent_c >= 2)
        out.count("chan_r0")
        if lines[-1] != "CLOSED":
            out.violation("ChannelUpdater: %s (bs=%d)" % (lines[-1], bs), dict(kind="channel", bs=bs, sends=seq, impl=lines))
            continue
        got = []
        for l in lines[:-1]:
            k, *v = l.split()
            got += [{"S": 0, "C": 1, "E": 2}[k], int(v[0]) if v and k != "E" else 0]
        if mo is not None and got != mo:
            out.corr("R0-channel-batching", dict(bs=bs, sends=seq), mo, got)
        # direct oracle: delivered copied <= sent copied; sizes and errors all delivered, order kept
        dc = sum(got[i + 1] for i in range(0, len(got), 2) if got[i] == 1)
        sc = sum(v for k, v in seq if k == "C")
        ds = [got[i + 1] for i in range(0, len(got), 2) if got[i] == 0]
        if dc > sc or ds != [v for k, v in seq if k == "S"] or got[::2].count(2) != sum(1 for k, _ in seq if k == "E"):
            out.violation("ChannelUpdater delivered stream is not a truthful filter of the sends",
                          dict(kind="channel", bs=bs, sends=seq, delivered=got))


def parse_fd9(run, upath):
    """ordered (eseq, tid, text) of the update lines written to fd 9"""
    ups = []
    for e in run.trace:
        if e["sys"] == "write" and e["p1"] == upath and e.get("ret") is not None and e["ret"] > 0:
            ups.append(e)
    return ups


def run_copies(ctx, out):
    rng = ctx.rng
    quick = ctx.tier == "quick"
    sup = core.build_sup()
    d0 = ctx.work.fresh("c12copy")
    ncase = 36 if quick else 400
    # DIRECTED cases after the generated ones (one multi-block file, one worker: the order of the data calls is known): the kernel
    # copy reports end-of-data at the first call, in a middle block and at the first call of the TAIL block; a late EIO; and a
    # client slowed down at random so that whatever the walker does between queueing a file and announcing it is stretched
    directed = []
    for drv in ("parfile", "parblock"):
        for nth in (1, 3, 6):
            directed.append(dict(driver=drv, workers=1, bs=65536, upd="chan", size=5 * 65536 + 1000, fault="cfr-zero@%d/6" % nth,
                                 rule=("ret", 0, 0, "copy_file_range", nth)))
        directed.append(dict(driver=drv, workers=1, bs=65536, upd="rec", size=5 * 65536 + 1000, fault="cfr-EIO@6/6", rule=("fail", 5, 0, "copy_file_range", 6)))
        # a sparse file on a file system without an extent map (FIEMAP: EOPNOTSUPP, as on tmpfs): it is announced, so it is copied
        directed.append(dict(driver=drv, workers=2, bs=65536, upd="chan", size=0, sparse=True, fault="fiemap-unsupported", rule=("fail", 95, 0, "ioctl", 0)))
        # workers = 0 (`one per CPU`) on a process confined to ONE CPU: still at least one worker, or an error — never a copy()
        # that announces everything, copies nothing and returns Ok
        directed.append(dict(driver=drv, workers=0, bs=65536, upd="chan", size=100000, fault=None, rule=None, cpus=True))
        for i in range(3 if quick else 10):
            directed.append(dict(driver=drv, workers=2, bs=4096, upd=("recslow" if i % 2 == 0 else "rec"), size=3 * 65536 + i, fault=None, rule=None, hold=500))
    for k in range(ncase + len(directed)):
        spec = directed[k - ncase] if k >= ncase else None
        d = os.path.join(d0, "c%d" % k)
        os.makedirs(d)
        sizes = trees.SizeAlloc(rng, small=rng.random() < 0.7)
        # a third of the trees carry FIFOs / sockets / device nodes: their failure path sends no update of its own, the
        # copy call's result is then the only report
        tree = trees.gen_dir(rng, rng.choice([1, 2, 3]), rng.choice([3, 5]), sizes, specials=(0.25 if k % 3 == 2 else 0.0),
                             link_targets=[b"a", b"../a", b"nowhere", b"b/c", b"./x"])
        if spec:
            tree = ("dir", {b"only.bin": ("file", spec["size"], {}), b"tiny": ("file", 7, {})}, {})
            if spec.get("sparse"):
                tree = ("dir", {b"only.bin": ("file", 3 * (1 << 20), dict(data=[(0, 8192), (1 << 20, (1 << 20) + 70000), (3 * (1 << 20) - 4096, 3 * (1 << 20))])),
                                b"tiny": ("file", 7, {})}, {})
        trees.materialise(tree, os.fsencode(os.path.join(d, "src")))
        os.mkdir(os.path.join(d, "dst"))
        driver = rng.choice(["parfile", "parblock"])
        workers = rng.choice([1, 2, 4, 8])
        bs = rng.choice([1000, 4096, 65536, U64MAX])
        if spec:
            driver, workers, bs = spec["driver"], spec["workers"], spec["bs"]
        # every fourth tree also holds a sparse file of three data segments: its copy is a WALK (seek, copy a segment, seek ...)
        # in which a call can fail late, after earlier segments were copied and reported
        sparse_rel = None
        extra_total = 0
        if k % 4 == 1 and not spec:
            import fsutil
            sparse_rel = b"zz_sparse.bin"
            MiB = 1 << 20
            segs = [(0, 96 * 1024), (2 * MiB, 2 * MiB + 64 * 1024), (5 * MiB, 5 * MiB + 40000)]
            # the file ends in data, in a hole, or is shorter than one block of the default configuration and ends in a hole
            shape = rng.choice(["ends-in-data", "ends-in-hole", "small-tail-hole", "small-all-hole"])
            ssize = {"ends-in-data": 5 * MiB + 40000, "ends-in-hole": 7 * MiB + 123, "small-tail-hole": 262144, "small-all-hole": 102400}[shape]
            if shape == "small-tail-hole":
                segs = [(0, 4096)]
            elif shape == "small-all-hole":
                segs = []
            fsutil.make_file(os.path.join(d, "src", "zz_sparse.bin"), ssize, segs, tag=k + 1, sync=True)
            extra_total = ssize
            out.count("sparse_file_" + shape)
            bs = rng.choice([4096, 65536, 1 << 20, U64MAX])
        upd = rng.choice(["rec", "chanwrap", "chanwrap", "chan"])
        fault = None
        rules = []
        files = [(rel, n) for rel, n in trees.walk_files(tree) if n[0] == "file" and n[1] > 0]
        others = [(rel, n) for rel, n in trees.walk_files(tree) if n[0] in ("fifo", "sock", "chr", "link")]
        if sparse_rel is not None and rng.random() < 0.8 and not shape.startswith("small"):
            victim = os.path.join(d, "dst", "src", "zz_sparse.bin")
            vsrc = os.path.join(d, "src", "zz_sparse.bin")
            which = rng.choice(["cfr", "cfr", "lseek", "cfr-zero"])
            nth = rng.choice([2, 3, 4, 5])
            fault = "sparse-walk-%s@%d" % (which, nth)
            if which == "cfr":
                rules = [("fail", rng.choice([5, 28]), 0, "copy_file_range", nth, "=" + vsrc)]
            elif which == "lseek":
                rules = [("fail", 5, 0, "lseek", nth + 2, "=" + vsrc)]
            else:
                rules = [("ret", 0, 0, "copy_file_range", nth, "=" + vsrc)]
        elif others and (k % 3 == 2 or rng.random() < 0.2):
            rel, n = rng.choice(others)
            victim = os.path.join(d, "dst", "src", os.fsdecode(rel))
            if n[0] == "link":
                fault = "symlink-EIO"
                rules = [("fail", 5, 0, "symlink", 1, "=" + victim), ("fail", 5, 0, "symlinkat", 1, "=" + victim)]
            else:
                fault = "mknod-EPERM"
                rules = [("fail", 1, 0, "mknodat", 1, "=" + victim), ("fail", 1, 0, "mknod", 1, "=" + victim)]
        elif files and rng.random() < 0.5:
            rel, n = rng.choice(files)
            victim = os.path.join(d, "dst", "src", os.fsdecode(rel))
            fault = rng.choice(["cfr-EIO", "ftruncate-ENOSPC", "open-EACCES", "cfr-zero", "cfr-zero"])
            if fault == "cfr-EIO":
                rules = [("fail", 5, 0, "copy_file_range", 1, victim)]
            elif fault == "cfr-zero":
                # the kernel copy reports end-of-data early (the source shrank): at the first call, a middle one, or in the tail block
                nblk = max(1, -(-n[1] // min(bs, max(1, n[1]))))
                nth = rng.choice([1, max(1, nblk // 2), nblk])
                fault = "cfr-zero@%d/%d" % (nth, nblk)
                rules = [("ret", 0, 0, "copy_file_range", nth, victim)]
            elif fault == "ftruncate-ENOSPC":
                rules = [("fail", 28, 0, "ftruncate", 1, victim)]
            else:
                rules = [("fail", 13, 0, "openat", 1, victim)]
        if spec:
            upd, fault = spec["upd"], spec["fault"]
            rules = [spec["rule"] + (os.path.join(d, "src", "only.bin") if spec.get("sparse") else os.path.join(d, "dst", "src", "only.bin"),)] if spec["rule"] else []
            out.count("directed_cases")
        upath = os.path.join(d, "updates.log")
        argv = [ctx.bins["probe"], "copy", driver, str(workers), str(bs), upd, "--reflink=never", "--",
                os.path.join(d, "src"), os.path.join(d, "dst")]
        run = xcp.run_supervised(sup, argv, d, d, rules=rules, fd9=upath, tag="u",
                                 seed=rng.randrange(1 << 30), hold_permille=(spec.get("hold") if spec and spec.get("hold") else rng.choice([0, 100, 300])),
                                 hold_maxms=(8 if spec and spec.get("hold") else 3), timeout_ms=60000,
                                 cpus=({sorted(os.sched_getaffinity(0))[0]} if spec and spec.get("cpus") else None))
        total = trees.total_file_size(tree) + extra_total
        rep = dict(kind="copy", tree=trees.describe(tree), driver=driver, workers=workers, bs=bs, updater=upd, fault=fault,
                   argv=argv, stdout=run.stdout[-600:], stderr=run.stderr[-300:], exit=run.exit)
        out.case(("copy", k, driver, workers, bs, upd, fault), nontrivial=len(files) >= 2)
        out.count("copy_%s_%s" % (upd, "fault" if fault else "clean"))
        out.count("fault_" + (fault.split("@")[0] if fault else "none"))
        if run.meta.get("timeout") or run.exit == 124:
            out.violation("copy() / update stream did not end within the time bound", rep)
            continue
        lines = run.stdout.split("\n")
        ret = next((l for l in lines if l.startswith("RET")), None)
        if ret is None:
            out.violation("probe copy produced no result: " + run.stderr[-200:], rep)
            continue
        ups = parse_fd9(run, upath)
        try:
            raw = open(upath, "rb").read().decode("utf-8", "replace").split("\n")
        except OSError:
            raw = []
        # reconstruct the text of each fd-9 write in trace order: writes are whole lines, in file order == trace order
        texts = [l for l in raw if l]
        if len(texts) != len(ups):
            # not an implementation problem; skip the prefix analysis for this case
            out.count("fd9_mismatch")
            continue
        # walk the trace in exit order: running sums
        evs = []
        for e in run.trace:
            if e.get("ret") is None:
                continue
            if e["sys"] in ("copy_file_range",) and e["ret"] > 0 and e["p2"].startswith(os.path.join(d, "dst")):
                evs.append((e["x"], "moved", e["ret"], e))
            elif e["sys"] in ("write", "pwrite64") and e["ret"] > 0 and e["p1"].startswith(os.path.join(d, "dst")):
                evs.append((e["x"], "moved", e["ret"], e))
        for e, t in zip(ups, texts):
            evs.append((e["e"], "upd", t, e))     # an update is "sent" when its write is entered
        evs.sort(key=lambda x: x[0])
        moved = announced = sent_c = deliv_c = deliv_s = 0
        sent_seq = []
        deliv_seq = []
        bad = None
        for (_, kind, v, e) in evs:
            if kind == "moved":
                moved += v
                continue
            if v.startswith("D "):
                body = v[2:]
                deliv_seq.append(body)
                if body.startswith("C "):
                    deliv_c += int(body.split()[1])
                elif body.startswith("S "):
                    deliv_s += int(body.split()[1])
                if upd == "chanwrap" and (deliv_c > sent_c):
                    bad = "delivered Copied total %d exceeds bytes passed to send %d" % (deliv_c, sent_c)
                if deliv_c > deliv_s:
                    bad = "client saw %d bytes copied with only %d bytes announced" % (deliv_c, deliv_s)
                if deliv_c > moved:
                    bad = "client saw %d bytes copied when only %d had been transferred" % (deliv_c, moved)
            elif v.startswith("C "):
                sent_c += int(v.split()[1])
                sent_seq.append(v)
                if sent_c > moved:
                    bad = "updates report %d bytes copied when only %d had been transferred" % (sent_c, moved)
                if sent_c > announced:
                    bad = "updates report %d bytes copied with only %d announced" % (sent_c, announced)
            elif v.startswith("S "):
                announced += int(v.split()[1])
                sent_seq.append(v)
            elif v.startswith("E"):
                sent_seq.append("E")
            if bad:
                break
        if bad:
            out.violation(bad, rep)
            continue
        clean = (fault is None)
        if upd in ("rec", "recslow", "chanwrap"):
            if clean and announced != total:
                out.violation("Size updates sum to %d but the selected regular files total %d" % (announced, total), rep)
                continue
        if upd == "chan" and clean and deliv_s != total:
            out.violation("delivered Size updates sum to %d, files total %d" % (deliv_s, total), rep)
            continue
        if upd.startswith("chan") and "CLOSED" not in texts:
            out.violation("update channel did not close after copy() finished", rep)
            continue
        # incomplete destination => error update or copy() error
        incomplete = False
        for rel, n in trees.walk_files(tree):
            if n[0] == "file":
                pdst = os.path.join(os.fsencode(d), b"dst", b"src", rel)
                try:
                    same = open(pdst, "rb").read() == open(os.path.join(os.fsencode(d), b"src", rel), "rb").read()
                except OSError:
                    same = False
                if not same:
                    incomplete = True
            elif n[0] in ("fifo", "sock", "chr", "link"):
                pdst = os.path.join(os.fsencode(d), b"dst", b"src", rel)
                if not os.path.lexists(pdst) or (n[0] == "link") != os.path.islink(pdst):
                    incomplete = True
        if sparse_rel is not None:
            try:
                same = open(os.path.join(d, "dst", "src", "zz_sparse.bin"), "rb").read() == open(os.path.join(d, "src", "zz_sparse.bin"), "rb").read()
            except OSError:
                same = False
            if not same:
                incomplete = True
        had_error = any(t.startswith("E") or t.startswith("D E") for t in texts) or not ret.startswith("RET ok")
        if incomplete and not had_error:
            out.violation("destination incomplete but no Error update was sent and copy() returned Ok", rep)
            continue
        # R3: exact batching of the observed send order
        if upd == "chanwrap" and ctx.model_ok:
            enc = [bs]
            for s in sent_seq:
                if s == "E":
                    enc += [2, 0]
                else:
                    kk, vv = s.split()
                    enc += [0 if kk == "S" else 1, int(vv)]
            mo = core.run_model("run_chan", [enc], tag="c12w")[0]
            got = []
            for b in deliv_seq:
                if b.startswith("E"):
                    got += [2, 0]
                else:
                    kk, vv = b.split()[:2]
                    got += [0 if kk == "S" else 1, int(vv)]
            if mo != got:
                out.corr("R3-delivered-stream", dict(rep, sent=sent_seq[:40]), mo[:80], got[:80])
        out.sample(dict(kind="copy", driver=driver, workers=workers, bs=bs, updater=upd, fault=fault,
                        announced=announced, total=total, sent_copied=sent_c, moved=moved, ret=ret), limit=8)
        shutil.rmtree(d, ignore_errors=True)


def run(ctx, out):
    out.rule = ("(a) ChannelUpdater::send on generated send sequences x block sizes {1,2,7,100,4096,1MiB,u64::MAX,random} vs the "
                "model's batching filter; (b) library copies (probe linked against libxcp) of generated trees with a recording "
                "client updater, the real ChannelUpdater, and a wrapper logging the send order; both drivers, workers 1-8, random "
                "thread holds, single injected faults (data calls — also LATE in the segment walk of a sparse file —, and symlink / mknod of trees with links and special files); updates are written to fd 9 so the supervisor orders them with the data "
                "calls; (c) trees of thousands of files read by a client that drains the receiver only after copy() returned; (d) announced files renamed away / removed by another process while the first data call is held. non-trivial = >=2 Copied sends / tree with >=2 non-empty files; distinct by input")
    run_channel_r0(ctx, out)
    run_copies(ctx, out)
    run_wide(ctx, out)
    run_vanishing(ctx, out)


def run_vanishing(ctx, out):
    """Files that were announced (their Size was sent) are renamed away or removed by ANOTHER process before a worker reaches
    them: the destination ends up incomplete, so an error update must be delivered or copy() must return an error."""
    import time
    rng = ctx.rng
    quick = ctx.tier == "quick"
    sup = core.build_sup()
    d0 = ctx.work.fresh("c12gone")
    k = 0
    for driver in ("parfile", "parblock"):
        for how in ("rename", "unlink"):
            for w in ((1,) if quick else (1, 2, 4)):
                k += 1
                d = os.path.join(d0, "v%d" % k)
                os.makedirs(os.path.join(d, "src", "sub"))
                names = ["f%d.bin" % i for i in range(8)] + ["sub/g%d.bin" % i for i in range(4)]
                for i, nme in enumerate(names):
                    open(os.path.join(d, "src", nme), "wb").write(bytes([65 + i]) * (66000 + i))
                victims = [n for i, n in enumerate(names) if i % 2 == 1]
                acted = []

                def env(d=d, victims=victims, how=how, acted=acted):
                    t0 = time.time()
                    while time.time() - t0 < 20 and not os.path.isdir(os.path.join(d, "dst", "src", "sub")):
                        time.sleep(0.005)
                    for v in victims:
                        try:
                            if how == "rename":
                                os.rename(os.path.join(d, "src", v), os.path.join(d, "src", v + ".moved"))
                            else:
                                os.unlink(os.path.join(d, "src", v))
                            acted.append(v)
                        except OSError:
                            pass
                os.mkdir(os.path.join(d, "dst"))
                argv = [ctx.bins["probe"], "copy", driver, str(w), "65536", "chan", "--reflink=never", "--", os.path.join(d, "src"), os.path.join(d, "dst")]
                rules = [("hold", 1500, 0, "copy_file_range", 1, "*")]
                r = xcp.run_supervised(sup, argv, d, d, rules=rules, tag="g", timeout_ms=60000, during=env, during_delay=0.0)
                out.case(("vanishing-announced-files", driver, how, w), nontrivial=bool(acted))
                out.count("announced_files_vanishing")
                missing = [n for n in names if not os.path.exists(os.path.join(d, "dst", "src", n))]
                lines = r.stdout.split("\n")
                reported = any(l.startswith("RET err") or l.startswith("RET panic") for l in lines) or any(l.startswith("DELIVERED E") for l in lines)
                rep = dict(kind="announced files %sd by another process during the copy" % how, argv=argv, rules=rules, victims=victims,
                           missing=missing[:6], stdout=r.stdout[-400:], exit=r.exit)
                if r.meta.get("timeout") or r.exit == 124:
                    out.violation("copy() / update stream did not end within the time bound", rep)
                elif missing and not reported:
                    out.violation("the destination is incomplete (%d announced files missing: they were %sd by another process) but no error update "
                                  "was delivered and copy() returned Ok" % (len(missing), how), rep)
                shutil.rmtree(d, ignore_errors=True)


def run_wide(ctx, out):
    """VERY WIDE trees (thousands of files: thousands of updates outstanding at once) and a client that reads the stream only
    AFTER copy() returned — `the stream ends once the copy call has finished` for every tree and every client."""
    import subprocess
    rng = ctx.rng
    quick = ctx.tier == "quick"
    d0 = ctx.work.fresh("c12wide")
    nfiles = 5000 if quick else 12000
    src = os.path.join(d0, "src")
    total = 0
    for i in range(nfiles):
        sub = os.path.join(src, "d%02d" % (i % 8))
        if i < 8:
            os.makedirs(sub)
        n = 1 + (i * 7) % 23
        with open(os.path.join(sub, "f%05d" % i), "wb") as f:
            f.write(b"w" * n)
        total += n
    for driver in ("parfile", "parblock"):
        for upd in ("chanlate", "chan"):
            dst = os.path.join(d0, "dst_%s_%s" % (driver, upd))
            argv = [ctx.bins["probe"], "copy", driver, str(rng.choice([2, 4])), "65536", upd, "--reflink=never", "--", src, dst]
            try:
                r = subprocess.run(argv, cwd=d0, capture_output=True, text=True, timeout=120, env=dict(os.environ, RUST_BACKTRACE="0"))
                stdout, timed_out = r.stdout, False
            except subprocess.TimeoutExpired as ex:
                stdout, timed_out = (ex.stdout or b"").decode("utf-8", "replace") if isinstance(ex.stdout, bytes) else (ex.stdout or ""), True
            out.case(("wide", driver, upd, nfiles), True)
            out.count("wide_tree_" + upd)
            rep = dict(kind="wide tree", files=nfiles, total_bytes=total, driver=driver, updater=upd, argv=argv,
                       client="reads the receiver after copy() returned" if upd == "chanlate" else "reads while copy() runs")
            if timed_out:
                out.violation("copy() of a tree of %d files did not return / the update stream did not end within 120 s (%s)"
                              % (nfiles, rep["client"]), rep)
            elif "RET ok" not in stdout or "CLOSED" not in stdout:
                out.violation("copy() of a wide tree: %s" % (stdout[-200:] or "no result"), rep)
            elif upd == "chanlate":
                summ = next((l for l in stdout.split("\n") if l.startswith("SUMMARY")), "")
                w = summ.split()
                got = dict(zip(w[1::2], w[2::2]))
                # (Copied updates are batched up to the block size: the stream may report LESS than was transferred, never more)
                if got.get("size_sum") != str(total) or got.get("sizes") != str(nfiles) or int(got.get("copied", "0")) > total or got.get("errors") != "0":
                    out.violation("wide tree: the updates read after the call do not account for the copy: %s (expected %d files, %d bytes)"
                                  % (summ, nfiles, total), rep)
            shutil.rmtree(dst, ignore_errors=True)
    shutil.rmtree(d0, ignore_errors=True)
