"""C02 — exit 0 implies the destination tree mirrors the selected source tree."""
import os
import shutil
import subprocess

import core
import treecase
import trees
import xcp


def gen_case(rng, k, quick, allow_links=True, specials=0.0):
    sizes = trees.SizeAlloc(rng, small=True)
    nsrc = rng.choice([1, 1, 1, 2, 3])
    srcs = []
    names = rng.sample([b"src", b"alpha", b"be ta", b"g\xc3\xa4mma", b"d", b"one.two"], nsrc)
    for nm in names:
        if rng.random() < 0.2 and nsrc > 1:
            srcs.append((nm, ("file", sizes.next(), {})))
        else:
            srcs.append((nm, trees.gen_dir(rng, rng.choice([0, 1, 2, 3]), rng.choice([2, 3, 5]), sizes,
                                           links=0.15 if allow_links else 0.0, specials=specials)))
    dest_state = rng.choice(["absent", "emptydir", "emptydir", "populated", "populated-other", "populated-links"]) if nsrc == 1 else \
        rng.choice(["emptydir", "emptydir", "populated-other"])
    flags = []
    if nsrc == 1 and rng.random() < 0.2:
        flags.append("-T")
    spelling = rng.choice(["rel", "rel", "dot", "abs", "slash"])
    return dict(srcs=srcs, dest_state=dest_state, flags=flags, spelling=spelling, tdir=rng.random() < 0.12,
                glob=rng.random() < 0.12, driver=rng.choice(["parfile", "parblock"]), workers=rng.choice([1, 2, 4]))


def build(case, d):
    """materialise under directory d (str); returns (source args, dest arg) as bytes"""
    db = os.fsencode(d)
    for nm, spec in case["srcs"]:
        trees.materialise(spec, os.path.join(db, nm))
    dest = os.path.join(db, b"dest")
    st = case["dest_state"]
    if st in ("emptydir", "populated", "populated-other", "populated-links"):
        os.mkdir(dest)
    if st == "populated-links":
        # an earlier copy left symbolic links with DIFFERENT text at the targets of the source's links
        nm, spec = case["srcs"][0]
        def prevl(spec, path):
            if spec[0] == "dir":
                os.makedirs(path, exist_ok=True)
                for n, ch in spec[1].items():
                    prevl(ch, os.path.join(path, n))
            elif spec[0] == "link":
                os.symlink(b"stale-target-of-an-earlier-copy", path)
        prevl(spec, os.path.join(dest, nm) if "-T" not in case["flags"] else dest)
    if st == "populated-other":
        os.mkdir(os.path.join(dest, b"unrelated"))
        open(os.path.join(dest, b"unrelated", b"keep.txt"), "wb").write(b"bystander")
        open(os.path.join(dest, b"zz-bystander"), "wb").write(b"bystander2")
        os.symlink(b"unrelated/keep.txt", os.path.join(dest, b"zz-link"))
    if st == "populated":
        # a previous copy of the first source with changed contents (regular files and directories only)
        nm, spec = case["srcs"][0]
        def prev(spec, path):
            if spec[0] == "dir":
                os.makedirs(path, exist_ok=True)
                for n, ch in spec[1].items():
                    prev(ch, os.path.join(path, n))
            elif spec[0] == "file":
                open(path, "wb").write(b"stale content of a previous copy " * 3)
        prev(spec, os.path.join(dest, nm) if "-T" not in case["flags"] else dest)
    # bystanders next to the sources
    open(os.path.join(db, b"bystander.txt"), "wb").write(b"do not touch")

    def spell(nm):
        s = case["spelling"]
        if s == "rel":
            return nm
        if s == "dot":
            return b"./" + nm
        if s == "abs":
            return os.path.join(db, nm)
        return nm + b"/" if os.path.isdir(os.path.join(db, nm)) else nm
    srcargs = [spell(nm) for nm, _ in case["srcs"]]
    destarg = {"rel": b"dest", "dot": b"./dest", "abs": dest, "slash": b"dest/" if os.path.isdir(dest) else b"dest"}[case["spelling"]]
    return srcargs, destarg


def utf8_ok(b):
    try:
        b.decode("utf-8")
        return True
    except UnicodeDecodeError:
        return False


def run_walker_r0(ctx, out):
    """R0: libxcp::tree_walker vs the Gallina `walk` on the same trees"""
    rng = ctx.rng
    quick = ctx.tier == "quick"
    d0 = ctx.work.fresh("c02walk")
    n = 60 if quick else 1200
    batch = []
    for k in range(n):
        d = os.path.join(d0, "w%d" % k)
        os.makedirs(d)
        case = gen_case(rng, k, quick, specials=0.05)
        case["srcs"] = case["srcs"][:1]
        deref = rng.random() < 0.3
        nc = rng.random() < 0.2
        notd = "-T" in case["flags"]
        srcargs, destarg = build(case, d)
        src = srcargs[0]
        if deref:
            # following a link to an ancestor of the sandbox puts the destination INSIDE the source (outside every
            # property's quantifier; the copy nests until PATH_MAX): no dereferencing for such trees
            real_d = os.path.realpath(d)
            for root, dirs, files in os.walk(os.path.join(os.fsencode(d), src if not src.startswith(b"/") else src)):
                for nme in dirs + files:
                    pth = os.path.join(root, nme)
                    if os.path.islink(pth):
                        tgt = os.path.realpath(pth)
                        if os.fsencode(real_d) == tgt or os.fsencode(real_d).startswith(tgt.rstrip(b"/") + b"/"):
                            deref = False
            if not deref:
                out.count("walk_deref_dropped_dest_inside_source")
        os.chdir(d)
        try:
            tbase = treecase.target_base(destarg, src, notd)
            tenc, entries = treecase.scan(src.rstrip(b"/") if src.rstrip(b"/") else src, deref)
            existing = treecase.lexists_rels(tbase, entries)
            flags = (["--no-clobber"] if nc else []) + (["--dereference"] if deref else []) + (["--no-target-directory"] if notd else [])
            pw = treecase.run_probe_walk(ctx, flags, [src], destarg, d)
        finally:
            os.chdir("/")
        batch.append((case, d, src, destarg, tbase, deref, nc, entries, existing, tenc, pw))
        out.count("walk_%s%s" % ("deref" if deref else "plain", "_nc" if nc else ""))
    models = treecase.model_walk([(b[6], b[5], [], b[8], b[9]) for b in batch]) if ctx.model_ok else [None] * len(batch)
    for (case, d, src, destarg, tbase, deref, nc, entries, existing, tenc, pw), m in zip(batch, models):
        rep = dict(tree=[trees.describe(s[1]) for s in case["srcs"]], src=repr(src), dest=repr(destarg), deref=deref,
                   no_clobber=nc, flags=case["flags"], argv=pw["argv"], probe_ret=pw["ret"], stderr=pw["stderr"])
        out.case(("walk", len(entries), deref, nc, tuple(e[1] for e in entries)), nontrivial=len(entries) >= 3)
        if m is None:
            continue
        if m["wf"] != 1:
            out.count("walk_model_not_wf")
            continue
        out.count("walk_compared_ops_%d" % min(5, len(pw["ops"])))
        mops = []
        msizes = []
        for a in m["acts"]:
            if a[0] == "copy":
                mops.append(("copy", treecase.rust_join(tbase, a[1])))
            elif a[0] == "link":
                mops.append(("link", treecase.rust_join(tbase, a[1]), a[2]))
            elif a[0] == "special":
                mops.append(("special", treecase.rust_join(tbase, a[1])))
            elif a[0] == "size":
                msizes.append(a[1])
        iops = []
        for (kind, f, t) in pw["ops"]:
            iops.append((kind, t, f) if kind == "link" else (kind, t))
        if (m["ok"] == 1) != (pw["ret"] == "ok"):
            out.corr("R0-walker-result: model ok=%s, tree_walker returned %s" % (m["ok"], pw["ret"]), rep,
                     [a for a in m["acts"] if a[0] == "err"], pw["ret"])
        elif mops != iops:
            out.corr("R0-walker-operations", rep, [repr(x) for x in mops[:30]], [repr(x) for x in iops[:30]])
        elif msizes != pw["sizes"]:
            out.corr("R0-walker-sizes", rep, msizes[:30], pw["sizes"][:30])
        else:
            # directories of the model exist after the walk
            for a in m["acts"]:
                if a[0] == "mkdir" and not os.path.isdir(os.path.join(os.fsencode(d), treecase.rust_join(tbase, a[1]))
                                                          if not tbase.startswith(b"/") else treecase.rust_join(tbase, a[1])):
                    out.corr("R0-walker-mkdir", rep, repr(a), "directory missing after the walk")
                    break
        shutil.rmtree(d, ignore_errors=True)
    if batch:
        b = batch[0]
        out.sample(dict(kind="walker", tree=trees.describe(b[0]["srcs"][0][1]), ops=[repr(x) for x in b[10]["ops"][:4]],
                        sizes=b[10]["sizes"][:6]))


def run_copies(ctx, out):
    """R1 + direct oracle: real xcp runs"""
    rng = ctx.rng
    quick = ctx.tier == "quick"
    d0 = ctx.work.fresh("c02copy")
    n = 90 if quick else 2500
    for k in range(n):
        d = os.path.join(d0, "c%d" % k)
        os.makedirs(d)
        case = gen_case(rng, k, quick, allow_links=rng.random() < 0.7)
        if case["dest_state"] == "populated":
            # re-copy over links fails by design (symlink EEXIST); keep the previous-copy case link-free
            case = gen_case(rng, k, quick, allow_links=False)
            case["dest_state"] = "populated"
            case["srcs"] = case["srcs"][:1]
        srcargs, destarg = build(case, d)
        notd = "-T" in case["flags"]
        if case["dest_state"] in ("absent", "emptydir", "populated-other") and rng.random() < 0.3:
            # a link somewhere inside a directory source that RESOLVES TO WHERE THE COPY GOES (the mapped target directory
            # or the destination itself: a `mirror -> ../../backups/proj` kept inside the project): a link like any other
            nm0 = case["srcs"][0][0]
            s0 = os.path.join(os.fsencode(d), nm0)
            if os.path.isdir(s0) and not os.path.islink(s0):
                dabs0 = os.path.join(os.fsencode(d), b"dest")
                mapped = dabs0 if (notd or not os.path.isdir(dabs0)) else os.path.join(dabs0, nm0)
                subs = [os.path.join(r, x) for r, ds, _ in os.walk(s0) for x in ds if not os.path.islink(os.path.join(r, x))]
                host = rng.choice([s0] + subs)
                for target_is in rng.sample(["mapped", "dest"], 2)[:rng.choice([1, 2])]:
                    lname = os.path.join(host, b"zz_mirror_" + target_is.encode())
                    tgt = mapped if target_is == "mapped" else dabs0
                    os.symlink(tgt if rng.random() < 0.5 else os.path.relpath(tgt, host), lname)
                out.count("link_resolving_to_the_target")
        nflags, nw, ncpus = xcp.neutral(rng)
        argv = [ctx.bins["xcp"], "-r", "--driver", case["driver"], "-w", nw or str(case["workers"])] + nflags + case["flags"]
        out.count("workers_auto(-w 0)" if nw else "workers_explicit")
        out.count("one_usable_cpu" if ncpus else "all_cpus")
        if case["glob"] and all(utf8_ok(s) for s in srcargs):
            argv.append("--glob")
            # a pattern that selects exactly the same source: bracket the first character
            def pat(s):
                s = os.fsdecode(s)
                lead, name = os.path.split(s.rstrip("/"))
                c = name[0]
                g = ("[" + c + "]" + name[1:]) if c not in "[]*?!-^" else name
                g = g.replace("*", "[*]").replace("?", "[?]") if c in "[]*?!-^" else "[" + c + "]" + name[1:].replace("[", "[[]").replace("*", "[*]").replace("?", "[?]")
                return os.path.join(lead, g) if lead else g
            srcs_cli = [pat(s) for s in srcargs]
        else:
            case["glob"] = False
            srcs_cli = [os.fsdecode(s) for s in srcargs]
        if case["tdir"]:
            argv += ["--target-directory", os.fsdecode(destarg)] + srcs_cli
        else:
            argv += srcs_cli + [os.fsdecode(destarg)]
        if not all(utf8_ok(os.fsencode(a)) for a in argv):
            shutil.rmtree(d, ignore_errors=True)
            continue
        os.chdir(d)
        try:
            exp = treecase.expected_dest([os.path.abspath(s) for s in srcargs], os.path.abspath(destarg), notd, False)
            valid = True
            dabs = os.path.abspath(destarg)
            if len(srcargs) > 1 and not os.path.isdir(dabs):
                valid = False
            if len(srcargs) == 1 and os.path.isdir(srcargs[0]) and os.path.exists(dabs) and not os.path.isdir(dabs):
                valid = False
            if case["tdir"] and not os.path.isdir(dabs):
                valid = valid and len(srcargs) == 1
            # dir onto existing non-dir inside the destination (C16's class F-16c) makes the case invalid too
            for tp, (kk, _) in exp.items():
                if kk == "dir" and os.path.lexists(tp) and not os.path.isdir(tp):
                    valid = False
                if kk == "link" and os.path.lexists(tp):
                    valid = False     # symlink() onto an existing entry fails by design
            before = xcp.snapshot(os.fsencode(d))
            fault = None
            if case["dest_state"] != "populated" and rng.random() < 0.25:
                # "on exit 0": also when ONE call of the run failed on the way (a source that cannot be opened or read at that
                # moment — ENOENT / EACCES / EIO —, a directory that cannot be listed, a destination entry that cannot be
                # created): either the run fails or the destination still mirrors every selected entry
                fault = (rng.choice(["openat", "openat", "statx", "getdents64", "mkdir", "symlink", "readlink"]), rng.choice([1, 2, 3, 5, 8]),
                         rng.choice([2, 2, 13, 5, 20]))
                if fault[0] == "getdents64" and fault[2] == 2:
                    # the C library reads ENOENT from getdents as the regular end of a directory that was removed while open
                    # (POSIX): that answer is not a failure, and the entries it hides were "not there"
                    fault = (fault[0], fault[1], 5)
                fpath = d
                if rng.random() < 0.5:
                    # ... most often: something BELOW THE FIRST SOURCE cannot be opened (walked directories, then the files)
                    fault = ("openat", rng.choice([1, 2, 3, 4, 5, 6, 8]), rng.choice([2, 2, 13]))
                    fpath = os.path.abspath(os.fsdecode(srcargs[0])).rstrip("/") + "/"
                r = xcp.run_supervised(core.build_sup(), argv, d, d, rules=[("fail", fault[2], 0, fault[0], fault[1], fpath)], tag="c",
                                       timeout_ms=120000, cpus=ncpus)
                if not any(e.get("inj") for e in r.trace):
                    fault = None
                out.count("single_fault_%s" % (fault[0] if fault else "not_reached"))
            else:
                r = xcp.run_plain(argv, d, timeout=120, cpus=ncpus)
            after = xcp.snapshot(os.fsencode(d))
        finally:
            os.chdir("/")
        rep = dict(kind="copy", srcs=[(repr(nm), trees.describe(sp)) for nm, sp in case["srcs"]], dest_state=case["dest_state"],
                   argv=argv, exit=r.exit, stderr=r.stderr[-400:], usable_cpus=(sorted(ncpus) if ncpus else "all"),
                   injected=(dict(call=fault[0], nth=fault[1], errno=fault[2]) if fault else None))
        nent = sum(1 for _ in exp)
        out.case(("copy", k, case["driver"], case["dest_state"], case["spelling"], tuple(case["flags"]), nent),
                 nontrivial=nent >= 3)
        out.count("dest_" + case["dest_state"])
        out.count("spelling_" + case["spelling"] + ("_glob" if case["glob"] else "") + ("_tdir" if case["tdir"] else ""))
        if r.exit == 124:
            out.violation("xcp did not terminate", rep)
        elif r.exit == 0:
            why = treecase.check_expected(exp)
            if why:
                out.violation("exit 0 but " + why, rep)
            else:
                # frame: nothing but mapped targets (and their ancestor directories inside the destination) changed
                dabs_rel = os.path.relpath(os.path.abspath(os.path.join(os.fsencode(d), destarg)), os.fsencode(d))
                allowed = set()
                for tp in exp:
                    relp = os.path.relpath(tp, os.fsencode(d))
                    allowed.add(relp)
                    while relp and relp != dabs_rel and relp != b".":
                        relp = os.path.dirname(relp)
                        allowed.add(relp)
                for (p, ea, eb) in xcp.snap_diff(before, after, ignore=("ino", "nlink", "blocks")):
                    if p in allowed or p == b"" or p.startswith(b".sup"):
                        continue
                    if ea and eb and ea["kind"] == "dir" and eb["kind"] == "dir":
                        da = {x: v for x, v in ea.items() if x not in ("ino", "nlink")}
                        db_ = {x: v for x, v in eb.items() if x not in ("ino", "nlink")}
                        if da == db_:
                            continue
                    out.violation("exit 0 but %r, which no source entry maps onto, was %s" % (
                        p, "created" if ea is None else "removed" if eb is None else "changed"), rep)
                    break
        elif valid and not fault:
            out.corr("R1-valid-invocation-failed: the model/mapping rule expects success", rep, "exit 0", r.exit)
        out.sample(dict(kind="copy", argv=argv[1:], entries=nent, exit=r.exit), limit=8)
        shutil.rmtree(d, ignore_errors=True)


def run(ctx, out):
    out.rule = ("(a) libxcp::tree_walker (probe, hooks) vs the Gallina walk on generated trees (depth<=3, fan-out<=5, names with "
                "spaces/UTF-8/non-UTF-8/newlines, relative/absolute/dangling links, special files), with and without "
                "--dereference/--no-clobber/-T: operation list, Size list, result, directories; (b) real xcp runs: 1-3 sources, "
                "destination absent/empty/populated by a previous copy/with bystanders, spellings rel/./abs/trailing slash, -T, "
                "--target-directory, --glob patterns selecting the same sources, both drivers, neutral options (-v, -f, --no-progress, "
                "-w 0 = one worker per CPU), runs confined to ONE usable CPU, runs in which one call fails (ENOENT/EACCES/EIO/ENOTDIR at the "
                "n-th open / stat / listing / mkdir / symlink / readlink): whole-sandbox snapshot vs an "
                "independent Python statement of cp's mapping rule and a frame check; the destination matrix (DestMatrix.v); operands "
                "that are links (copied as links, never descended into, whatever they point at from their new place); --gitignore selections (git's own verdicts; sources holding a directory of their own name) mirrored entry by entry; destinations whose parent is missing, trees whose files are renamed away or whose fresh destination directory is removed by another process during the run (exit 0 still means: everything there); operands ending in `..` (nothing outside the destination); overwrites with backups next to existing backups of any number (2^64-1 included): bystanders untouched; non-trivial = >=3 entries; distinct by case")
    run_walker_r0(ctx, out)
    run_copies(ctx, out)
    import destmatrix
    destmatrix.run(ctx, out, "C02", opts=["none", "backup"])
    run_link_operands(ctx, out)
    run_selected(ctx, out)
    run_unreachable_and_vanishing(ctx, out)
    run_dotdot_operands(ctx, out)
    run_backup_bystanders(ctx, out)
    run_odd_named_directories(ctx, out)


def run_odd_named_directories(ctx, out):
    """Directories whose names are not UTF-8, with nothing but directories below them (empty ones included): entries like any
    other — each exists at the destination as a directory."""
    rng = ctx.rng
    d0 = ctx.work.fresh("c02odd")
    k = 0
    for driver in ("parfile", "parblock"):
        for dest_state in ("absent", "dir", "dir-T"):
            k += 1
            d = os.path.join(os.fsencode(d0), b"o%d" % k)
            rels = [b"empty\xff\xfe", b"caf\xe9/inner\xc0/leaf", b"caf\xc3\xa9-utf8/leaf", b"plain/e"]
            for rel in rels:
                os.makedirs(os.path.join(d, b"src", rel))
            open(os.path.join(d, b"src", b"plain", b"f"), "wb").write(b"f")
            if dest_state != "absent":
                os.makedirs(os.path.join(d, b"dst"))
            argv = [ctx.bins["xcp"], "-r", "--driver", driver, "-w", str(rng.choice([1, 2, 4]))] + (["-T"] if dest_state == "dir-T" else []) + ["src", "dst"]
            r = xcp.run_plain(argv, os.fsdecode(d))
            base = os.path.join(d, b"dst", b"src") if dest_state == "dir" else os.path.join(d, b"dst")
            out.case(("odd-named-directories", driver, dest_state), True)
            out.count("odd_named_directories")
            if r.exit == 0:
                missing = [rel for rel in rels if not os.path.isdir(os.path.join(base, rel))]
                if missing:
                    out.violation("exit 0 but the directory %r (a name that is not UTF-8, only directories below it) is not at the destination" % missing[0],
                                  dict(argv=argv[1:], exit=r.exit, stderr=r.stderr[-200:]))
            else:
                out.corr("R1-valid-invocation-failed: the model/mapping rule expects success", dict(argv=argv[1:], stderr=r.stderr[-200:]), "exit 0", r.exit)
            shutil.rmtree(d, ignore_errors=True)


def run_backup_bystanders(ctx, out):
    """With backups enabled the entry a source maps onto is renamed to a NEW name: every other entry of the destination —
    among them backups of any number, up to the largest a u64 holds — is one that no source maps onto and stays as it is."""
    rng = ctx.rng
    d0 = ctx.work.fresh("c02bak")
    k = 0
    for driver in ("parfile", "parblock"):
        for mode in ("numbered", "auto"):
            for top in (18446744073709551615, 18446744073709551614, 7):
                k += 1
                d = os.path.join(d0, "b%d" % k)
                os.makedirs(os.path.join(d, "t", "sub"))
                os.makedirs(os.path.join(d, "s", "sub"))
                for rel in ("f", "sub/g"):
                    open(os.path.join(d, "s", rel), "wb").write(b"new " + rel.encode())
                    open(os.path.join(d, "t", rel), "wb").write(b"current " + rel.encode())
                    open(os.path.join(d, "t", rel + ".~%d~" % top), "wb").write(b"backup %d of " % top + rel.encode())
                    open(os.path.join(d, "t", rel + ".~2~"), "wb").write(b"backup 2 of " + rel.encode())
                open(os.path.join(d, "t", "unrelated"), "wb").write(b"unrelated")
                before = xcp.snapshot(os.fsencode(d))
                argv = [ctx.bins["xcp"], "-r", "-T", "--driver", driver, "-w", str(rng.choice([1, 2])), "--backup", mode, "s", "t"]
                r = xcp.run_plain(argv, d)
                after = xcp.snapshot(os.fsencode(d))
                out.case(("backup-bystanders", driver, mode, top), True)
                out.count("backup_bystanders")
                if r.exit == 0:
                    for p_, e in before.items():
                        if p_.startswith(b"t/") and p_ not in (b"t/f", b"t/sub/g", b"t/sub") and e["kind"] == "file":
                            a = after.get(p_)
                            if a is None or a.get("sha") != e.get("sha"):
                                out.violation("exit 0 but %r, an entry of the destination that no source maps onto, was %s (--backup %s)"
                                              % (p_, "removed" if a is None else "replaced", mode),
                                              dict(argv=argv[1:], exit=r.exit, stderr=r.stderr[-200:]))
                                break
                shutil.rmtree(d, ignore_errors=True)


def run_dotdot_operands(ctx, out):
    """Operands whose LAST component is `..` (dir/sub/.., .., ../..): like cp, the source goes into the destination itself —
    never into dest/.. , which is the destination's parent: nothing is created outside the destination."""
    rng = ctx.rng
    d0 = ctx.work.fresh("c02dotdot")
    k = 0
    for driver in ("parfile", "parblock"):
        for (cwd_rel, operand) in (("", "a/sub/.."), ("a/sub", ".."), ("a/sub/deep", "../.."), ("", "a/sub/../sub/.."), ("", "./a/sub/..")):
            for dest_state in ("dir", "absent", "dir-T"):
                k += 1
                d = os.path.join(d0, "p%d" % k, "outer")
                os.makedirs(os.path.join(d, "a", "sub", "deep"))
                open(os.path.join(d, "a", "fa"), "wb").write(b"file in a")
                open(os.path.join(d, "a", "sub", "fs"), "wb").write(b"file in a/sub")
                os.symlink("fa", os.path.join(d, "a", "lnk"))
                if dest_state != "absent":
                    os.makedirs(os.path.join(d, "dst"))
                cwd = os.path.join(d, cwd_rel) if cwd_rel else d
                destarg = os.path.relpath(os.path.join(d, "dst"), cwd)
                top = os.path.dirname(d)          # the sandbox INCLUDING the directory above `outer`: dst/../.. must stay as it is too
                before = xcp.snapshot(os.fsencode(top))
                argv = [ctx.bins["xcp"], "-r", "--driver", driver, "-w", str(rng.choice([1, 2, 4]))] + (["-T"] if dest_state == "dir-T" else []) + [operand, destarg]
                r = xcp.run_plain(argv, cwd)
                after = xcp.snapshot(os.fsencode(top))
                out.case(("dotdot-operand", driver, cwd_rel, operand, dest_state), True)
                out.count("operands_ending_in_dotdot")
                rep = dict(kind="operand ending in ..", cwd=cwd_rel or ".", argv=argv[1:], exit=r.exit, stderr=r.stderr[-200:])
                outside = [p for (p, a, b) in xcp.snap_diff(before, after, ignore=("ino", "nlink", "blocks", "atime_ns"))
                           if not (p == b"outer/dst" or p.startswith(b"outer/dst/")) and p not in (b"", b"outer")]
                if outside:
                    out.violation("an operand ending in `..`: %r was created or changed OUTSIDE the destination (exit %d)" % (outside[:3], r.exit), rep)
                elif r.exit == 0:
                    want = {b"outer/dst/fa": "file", b"outer/dst/sub": "dir", b"outer/dst/sub/fs": "file", b"outer/dst/sub/deep": "dir", b"outer/dst/lnk": "link"}
                    bad = [p for p, kd in want.items() if after.get(p, {}).get("kind") != kd]
                    if bad:
                        out.violation("an operand ending in `..` exited 0 but %r is not at the destination (cp copies such a source into the destination itself)"
                                      % bad[:3], rep)
                shutil.rmtree(os.path.dirname(d), ignore_errors=True)


def run_unreachable_and_vanishing(ctx, out):
    """exit 0 promises the whole selected tree at the destination — also when part of the destination cannot be created (a
    missing parent directory; a destination directory removed by someone else during the run) and when entries of the
    source are renamed away after the walk selected them: then the run must fail, never succeed with entries missing."""
    import time
    rng = ctx.rng
    quick = ctx.tier == "quick"
    sup = core.build_sup()
    d0 = ctx.work.fresh("c02gone")
    k = 0
    for driver in ("parfile", "parblock"):
        for tail in (["f", "dst/nodir/f"], ["-r", "tree", "nosuch/deeper/tree"], ["f", "tree", "nosuch/"]):
            k += 1
            d = os.path.join(d0, "u%d" % k)
            os.makedirs(os.path.join(d, "tree", "sub"))
            os.makedirs(os.path.join(d, "dst"))
            open(os.path.join(d, "f"), "wb").write(b"F" * 3000)
            open(os.path.join(d, "tree", "sub", "t"), "wb").write(b"T" * 50)
            os.symlink("sub/t", os.path.join(d, "tree", "l"))
            before = xcp.snapshot(os.fsencode(d))
            argv = [ctx.bins["xcp"], "--driver", driver, "-w", "2"] + (["-r"] if tail[0] != "-r" and "tree" in tail else []) + tail
            r = xcp.run_plain(argv, d)
            after = xcp.snapshot(os.fsencode(d))
            out.case(("missing-parent", driver, tuple(tail)), True)
            out.count("destination_parent_missing")
            if r.exit == 0:
                # whatever mapping applied, every regular file and link of the operands must exist somewhere new with its content
                new = {p: e for p, e in after.items() if p not in before}
                shas = {e.get("sha") for e in new.values() if e["kind"] == "file"}
                want = [before[b"f"]["sha"]] if b"f" in [os.fsencode(x) for x in tail] else []
                if "tree" in tail:
                    want.append(before[b"tree/sub/t"]["sha"])
                if any(w not in shas for w in want):
                    out.violation("exit 0 but a selected entry is nowhere at the destination (the destination's parent directory did not exist): %r"
                                  % (argv[1:],), dict(argv=argv[1:], exit=r.exit, stderr=r.stderr[-300:], created=sorted(repr(p) for p in new)[:8]))
            shutil.rmtree(d, ignore_errors=True)
    for driver in ("parfile", "parblock"):
        for what in ("rename-source-files", "remove-destination-directory"):
            for w in ((1,) if quick else (1, 2, 4)):
                k += 1
                d = os.path.join(d0, "v%d" % k)
                os.makedirs(os.path.join(d, "src", "sub", "deep"))
                names = ["f%d.bin" % i for i in range(6)] + ["sub/g%d.bin" % i for i in range(4)] + ["sub/deep/h%d.bin" % i for i in range(3)]
                for i, nme in enumerate(names):
                    open(os.path.join(d, "src", nme), "wb").write(bytes([65 + i]) * (66000 + i))
                os.symlink("f0.bin", os.path.join(d, "src", "sub", "lnk"))
                acted = []

                def env(d=d, what=what, acted=acted, names=names):
                    t0 = time.time()
                    while time.time() - t0 < 20 and not os.path.isdir(os.path.join(d, "dst", "sub", "deep")):
                        time.sleep(0.005)
                    try:
                        if what == "rename-source-files":
                            for v in names[1::2]:
                                os.rename(os.path.join(d, "src", v), os.path.join(d, "src", v + ".moved"))
                                acted.append(v)
                        else:
                            os.rmdir(os.path.join(d, "dst", "sub", "deep"))
                            acted.append("dst/sub/deep")
                    except OSError:
                        pass
                argv = [ctx.bins["xcp"], "-r", "-T", "--driver", driver, "-w", str(w), "--block-size", "65536", "src", "dst"]
                rules = [("hold", 1500, 0, "copy_file_range", 1, "*")]
                before_src = xcp.snapshot(os.fsencode(os.path.join(d, "src")))
                r = xcp.run_supervised(sup, argv, d, d, rules=rules, tag="v", timeout_ms=60000, during=env, during_delay=0.0)
                out.case(("changing-during-the-run", driver, w, what), nontrivial=bool(acted))
                out.count("trees_changing_during_the_run")
                if r.exit == 0:
                    dsnap = xcp.snapshot(os.fsencode(os.path.join(d, "dst"))) if os.path.isdir(os.path.join(d, "dst")) else {}
                    missing = [p for p, e in before_src.items() if p and (p not in dsnap or dsnap[p]["kind"] != e["kind"] or
                                                                          (e["kind"] == "file" and dsnap[p].get("sha") != e.get("sha")))]
                    if missing:
                        out.violation("exit 0 but %d selected entries are missing or wrong at the destination (%r ...): another process %s after the walk "
                                      "had selected them" % (len(missing), missing[:3], "renamed source files away" if what.startswith("rename") else
                                                             "removed a destination directory the run had created"),
                                      dict(argv=argv[1:], rules=rules, environment=what, acted_on=acted[:6], exit=r.exit, stderr=r.stderr[-300:]))
                shutil.rmtree(d, ignore_errors=True)


def run_selected(ctx, out):
    """`the selected source tree` under --gitignore: the destination holds exactly the entries git itself does not ignore
    (directories pruned with what is below them), each with its kind, content and link text — whatever the operand's
    spelling, also when a directory inside the source carries the source's own name (patterns anchored at the root
    apply one level only)."""
    from props import c17
    rng = ctx.rng
    quick = ctx.tier == "quick"
    d0 = ctx.work.fresh("c02sel")
    for k in range(16 if quick else 300):
        d = os.path.join(d0, "s%d" % k)
        os.makedirs(d)
        name = rng.choice(["proj", "src", "a b", "pkg.d"])
        tree = c17.gen_tree(rng, rng.choice([1, 2]))
        pats = c17.gen_patterns(rng, tree)
        if k % 2 == 0:
            inner = c17.gen_tree(rng, 1)
            inner[1][b"dist"] = ("dir", {b"wheel.py": ("file", 9, {}), b"sub": ("dir", {b"x.py": ("file", 3, {})}, {})}, {})
            inner[1][b"c-link"] = ("link", b"dist/wheel.py")
            tree[1][os.fsencode(name)] = inner
            tree[1][b"dist"] = ("dir", {b"bundle.tar": ("file", 30, {})}, {})
            pats += ["/dist"] + ["/" + os.fsdecode(n) for n in list(inner[1])[:2]]
        src = os.path.join(d, name)
        trees.materialise(tree, os.fsencode(src))
        open(os.path.join(src, ".gitignore"), "w").write("\n".join(pats) + "\n")
        ref = os.path.join(d, "ref")
        shutil.copytree(src, ref, symlinks=True)
        subprocess.run(["git", "init", "-q", ref], capture_output=True)
        _, entries = treecase.scan(os.fsencode(src), False)
        rels = [r for r, _, _ in entries if r]
        ign = c17.git_ignored(ref, [b"/".join(r) for r in rels])
        keep = {b"/".join(r) for r in rels if not any(b"/".join(r[:i]) in ign for i in range(1, len(r) + 1))}
        os.mkdir(os.path.join(d, "sub"))
        spelling = rng.choice(["rel", "rel", "dotrel", "slash", "abs", "dotdot"])
        sarg = {"abs": src, "rel": name, "dotrel": "./" + name, "dotdot": "sub/../" + name, "slash": name + "/"}[spelling]
        driver = rng.choice(["parfile", "parblock"])
        argv = [ctx.bins["xcp"], "-r", "--gitignore", "--driver", driver, "-w", str(rng.choice([1, 2, 4])), sarg, "out"]
        r = xcp.run_plain(argv, d)
        ssnap = xcp.snapshot(os.fsencode(src))
        dsnap = xcp.snapshot(os.fsencode(os.path.join(d, "out"))) if os.path.isdir(os.path.join(d, "out")) else {}
        rep = dict(kind="selected-by-gitignore", patterns=pats, tree=trees.describe(tree, 24), argv=argv[1:], exit=r.exit, stderr=r.stderr[-200:])
        out.case(("selected", k, tuple(pats), spelling, driver), nontrivial=len(keep) < len(rels))
        out.count("gitignore_selected")
        if r.exit != 0:
            out.corr("R1-valid-invocation-failed: the model/mapping rule expects success", rep, "exit 0", r.exit)
        else:
            got = {p for p in dsnap if p}
            if got != keep:
                out.violation("exit 0 but the destination is not the selected source tree: missing %r, not selected yet present %r"
                              % (sorted(keep - got)[:4], sorted(got - keep)[:4]), rep)
            else:
                for p in sorted(keep):
                    a, b = ssnap[p], dsnap[p]
                    if any(a.get(f) != b.get(f) for f in ("kind", "sha", "link", "size")):
                        out.violation("exit 0 but the selected entry %r differs (%s)" % (p, [f for f in ("kind", "sha", "link", "size") if a.get(f) != b.get(f)]), rep)
                        break
        shutil.rmtree(d, ignore_errors=True)


def run_link_operands(ctx, out):
    """The operand itself is a symbolic link (no -L): it is re-created as a link with the same text under its own name and
    NOT descended into — whatever lies where the fresh link points from its new place (a directory of the destination
    that happens to carry the target's name, with files of the same names in it) is not a mapped target and stays as it is."""
    rng = ctx.rng
    quick = ctx.tier == "quick"
    sup = core.build_sup()
    d0 = ctx.work.fresh("c02linkop")
    k = 0
    for driver in ("parfile", "parblock"):
        for target in ("dir", "file"):
            for text in ("rel", "abs"):
                for extra in ([], ["--backup", "numbered"], ["-n"]):
                    for hold in ((False, True) if not quick else (rng.random() < 0.5,)):
                        k += 1
                        d = os.path.join(d0, "l%d" % k)
                        os.makedirs(os.path.join(d, "realdir", "sub"))
                        os.makedirs(os.path.join(d, "dest", "realdir", "sub"))
                        open(os.path.join(d, "realdir", "a"), "wb").write(b"source a")
                        open(os.path.join(d, "realdir", "sub", "b"), "wb").write(b"source b")
                        open(os.path.join(d, "realfile"), "wb").write(b"source file")
                        # what the link would designate from inside the destination: entries NO source maps onto
                        open(os.path.join(d, "dest", "realdir", "a"), "wb").write(b"precious a")
                        open(os.path.join(d, "dest", "realdir", "sub", "b"), "wb").write(b"precious b")
                        open(os.path.join(d, "dest", "realfile"), "wb").write(b"precious file")
                        real = "realdir" if target == "dir" else "realfile"
                        os.symlink(real if text == "rel" else os.path.join(d, real), os.path.join(d, "thelink"))
                        before = xcp.snapshot(os.fsencode(d))
                        argv = [ctx.bins["xcp"], "-r", "--driver", driver, "-w", str(rng.choice([1, 2, 4]))] + extra + ["thelink", "dest"]
                        rules = [("hold", 150, 0, "symlink", 0, "*"), ("hold", 150, 0, "symlinkat", 0, "*")] if hold else []
                        r = xcp.run_supervised(sup, argv, d, d, rules=rules, tag="k", timeout_ms=30000)
                        after = xcp.snapshot(os.fsencode(d))
                        out.case(("link-operand", driver, target, text, tuple(extra), hold), True)
                        out.count("link_operands")
                        rep = dict(argv=argv[1:], link_text=os.readlink(os.path.join(d, "thelink")), exit=r.exit, stderr=r.stderr[-300:],
                                   link_creation_held=hold)
                        changed = [(p, a, b) for (p, a, b) in xcp.snap_diff(before, after, ignore=("ino", "nlink", "blocks", "atime_ns"))
                                   if not p.startswith(b".sup") and p not in (b"", b"dest")]
                        problem = None
                        for (p, a, b) in changed:
                            if p != b"dest/thelink":
                                problem = "%r, which no source entry maps onto, was %s" % (p, "created" if a is None else "removed" if b is None else "changed")
                                break
                        if not problem and r.exit == 0:
                            ent = after.get(b"dest/thelink")
                            if ent is None or ent["kind"] != "link" or ent["link"] != os.fsencode(os.readlink(os.path.join(d, "thelink"))) and ent["link"] != os.readlink(os.path.join(d, "thelink")):
                                problem = "exit 0 but dest/thelink is not the link (it is %r)" % (ent and (ent["kind"], ent.get("link")))
                        if problem:
                            out.violation("link operand (to a %s, %s text)%s: %s" % (target, text, " " + " ".join(extra) if extra else "", problem), rep)
                        shutil.rmtree(d, ignore_errors=True)
