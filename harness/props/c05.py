"""C05 — correct under short I/O counts and absent kernel copy/clone/extent support."""
import core
import datapath
from datapath import Case
from props import c01

B = 4096
E = dict(ENOSYS=38, EXDEV=18, EPERM=1, EOPNOTSUPP=95, EINVAL=22, EINTR=4)


def clamp_cfr(nth, k):
    return ("clamp", 4, k, "copy_file_range", nth, "{dst}")


def fail_cfr(nth, errno):
    return ("fail", errno, 0, "copy_file_range", nth, "{dst}")


def gen(ctx):
    rng = ctx.rng
    quick = ctx.tier == "quick"
    cases = []
    drivers = ("parfile", "parblock")
    # 1. short copy_file_range counts at the n-th call, several k
    for driver in drivers:
        for (size, bs) in [(10000, 4096), (10000, "noprogress"), (300, 64), (8192, 4096), (5 * B + 1, 2 * B), (64, 64)]:
            req0 = size if bs == "noprogress" else min(size, bs)
            ks = sorted({1, 2, req0 // 2, req0 - 1} - {0, req0}) if quick else \
                (list(range(1, req0)) if req0 <= 64 else sorted({1, 2, 3, req0 // 3, req0 // 2, req0 - 2, req0 - 1} - {0, req0}))
            for k in ks:
                for nth in ([1, 2] if quick else [1, 2, 3]):
                    cases.append(Case(size, driver=driver, workers=rng.choice([1, 2, 4]), bs=bs, reflink="never",
                                      plan=[clamp_cfr(nth, k)], label="short cfr"))
            # every call capped
            for k in ([1, 7] if size <= 300 else [1000, B - 1]):
                cases.append(Case(size, driver=driver, workers=rng.choice([1, 4]), bs=bs, reflink="auto",
                                  plan=[clamp_cfr(0, k)], label="every cfr capped"))
    # 2. copy_file_range unsupported: first / later / every call -> user-space copy
    for driver in drivers:
        for errno in (E["ENOSYS"], E["EXDEV"], E["EPERM"]):
            for nth in (1, 2, 0):
                for (size, bs) in [(10000, 4096), (5000, "noprogress"), (0, 4096), (1, 1)]:
                    if quick and rng.random() < 0.5:
                        continue
                    cases.append(Case(size, driver=driver, workers=rng.choice([1, 2]), bs=bs,
                                      plan=[fail_cfr(nth, errno)], label="cfr unsupported"))
        # ... combined with short reads / writes in the user-space loops
        rd = "read" if driver == "parfile" else "pread64"
        wr = "write" if driver == "parfile" else "pwrite64"
        for (size, bs) in [(10000, 4096), (3000, "noprogress"), (200, 64)]:
            req0 = size if bs == "noprogress" else min(size, bs)
            for k in sorted({1, req0 // 2, req0 - 1} - {0}):
                for nth in (1, 2):
                    cases.append(Case(size, driver=driver, workers=1, bs=bs,
                                      plan=[fail_cfr(0, E["ENOSYS"]), ("clamp", 2, k, rd, nth, "{src}")],
                                      label="short read in fallback"))
                    cases.append(Case(size, driver=driver, workers=1, bs=bs,
                                      plan=[fail_cfr(0, E["ENOSYS"]), ("clamp", 2, k, wr, nth, "{dst}")],
                                      label="short write in fallback"))
            cases.append(Case(size, driver=driver, workers=1, bs=bs,
                              plan=[fail_cfr(0, E["ENOSYS"]), ("clamp", 2, 1, rd, 0, "{src}")] if size <= 300 else
                                   [fail_cfr(0, E["ENOSYS"]), ("clamp", 2, 999, rd, 0, "{src}")],
                              label="every read short"))
        # read interrupted (EINTR) in the cursor loop
        cases.append(Case(5000, driver="parfile", workers=1, bs=2048,
                          plan=[fail_cfr(0, E["ENOSYS"]), ("fail", E["EINTR"], 0, "read", 2, "{src}")], label="EINTR"))
        cases.append(Case(5000, driver="parfile", workers=1, bs=2048,
                          plan=[fail_cfr(0, E["ENOSYS"]), ("fail", E["EINTR"], 0, "write", 1, "{dst}")], label="EINTR write"))
    # 2b. the user-space fallback under REAL concurrency: many blocks of one file in flight on several pool workers
    # (they share one pair of descriptors), threads held at random system-call entries
    for errno in (E["ENOSYS"], E["EXDEV"]):
        for w in (2, 4, 8):
            for sd in ((1, 2) if quick else (1, 2, 3, 4, 5, 6)):
                c = Case(64 * B + 123, driver="parblock", workers=w, bs=B, reflink="never", plan=[fail_cfr(0, errno)],
                         label="fallback, %d workers, 65 blocks" % w)
                c.seed = sd * 1000 + w
                cases.append(c)
    c = Case(64 * B + 123, driver="parfile", workers=4, bs=B, reflink="never", plan=[fail_cfr(0, E["ENOSYS"])], label="fallback parfile")
    c.seed = 77
    cases.append(c)
    # 3. clone unsupported answers, extent map unsupported
    for driver in drivers:
        for errno in (E["EOPNOTSUPP"], E["EINVAL"], E["EXDEV"]):
            cases.append(Case(3 * B + 9, driver=driver, workers=2, bs=B, reflink="auto",
                              plan=[("fail", errno, 0, "ioctl", 1, "{dst}")], label="FICLONE unsupported"))
        lay = [(i * B, (i + 1) * B) for i in range(0, 40, 2)]
        cases.append(Case(40 * B + 5, data=lay, driver=driver, workers=2, bs=3 * B, reflink="never",
                          plan=[("fail", E["EOPNOTSUPP"], 0, "ioctl", 0, "{src}")], label="FIEMAP unsupported"))
        cases.append(Case(40 * B + 5, data=lay, driver=driver, workers=2, bs=3 * B, reflink="never",
                          plan=[clamp_cfr(0, 1000)], label="sparse + capped cfr"))
        cases.append(Case(40 * B + 5, data=lay, driver=driver, workers=2, bs=3 * B, reflink="never",
                          plan=[clamp_cfr(3, 5)], label="sparse + short cfr"))
    # 3b. everything at once: a SPARSE source whose length is not a multiple of the file-system block (its last extent overhangs
    # the end of the file), no kernel copy, and a short read or write in the user-space loop — in the first, a middle and the
    # LAST (overhanging) range
    tail = 256 * B + 20000
    lay3 = [(0, 2 * B), (10 * B, 12 * B), (256 * B, tail)]
    for driver in drivers:
        rd = "read" if driver == "parfile" else "pread64"
        wr = "write" if driver == "parfile" else "pwrite64"
        for errno in ((E["ENOSYS"],) if quick else (E["ENOSYS"], E["EXDEV"], E["EPERM"])):
            for bs in ((1 << 20,) if quick else (1 << 20, 3 * B, "noprogress")):
                cases.append(Case(tail, data=lay3, driver=driver, workers=1, bs=bs, reflink="never",
                                  plan=[fail_cfr(0, errno)], label="sparse, unaligned length, no kernel copy"))
                for nth in (1, 2, 3):
                    for k in ((B,) if quick else (1, B, 3 * B)):
                        cases.append(Case(tail, data=lay3, driver=driver, workers=1, bs=bs, reflink="never",
                                          plan=[fail_cfr(0, errno), ("clamp", 2, k, wr, nth, "{dst}")],
                                          label="sparse, unaligned length, no kernel copy, short write"))
                        cases.append(Case(tail, data=lay3, driver=driver, workers=1, bs=bs, reflink="never",
                                          plan=[fail_cfr(0, errno), ("clamp", 2, k, rd, nth, "{src}")],
                                          label="sparse, unaligned length, no kernel copy, short read"))
    # 3c. data that happens to be ZERO (written zeros, allocated — not a hole) followed by other data, copied by the user-space
    # loops with short reads / writes: a chunk of zeros is data like any other, every later byte lands where it belongs
    for driver in drivers:
        rd = "read" if driver == "parfile" else "pread64"
        wr = "write" if driver == "parfile" else "pwrite64"
        for (size, zeros) in [(256 * 1024, [(0, 64 * 1024)]), (300000, [(65536, 131072), (200000, 204096)])]:
            for bs in ((65536,) if quick else (65536, 4096, "noprogress")):
                for k in (4096, 1000):
                    for which in (rd, wr):
                        c = Case(size, driver=driver, workers=1, bs=bs, reflink="never",
                                 plan=[fail_cfr(0, E["ENOSYS"]), ("clamp", 2, k, which, 0, "{src}" if which == rd else "{dst}")],
                                 label="written zeros then data, no kernel copy, every %s short" % which)
                        c.zeros = zeros
                        cases.append(c)
                c = Case(size, driver=driver, workers=2, bs=bs, reflink="never", plan=[fail_cfr(0, E["EXDEV"])], label="written zeros then data, no kernel copy")
                c.zeros = zeros
                cases.append(c)
    # 4. the build without the Linux backend (libfs/src/fallback.rs)
    for driver in drivers:
        for (size, bs) in [(0, B), (1, B), (10000, 4096), (10000, "noprogress"), (300, 7)]:
            c = Case(size, driver=driver, workers=2, bs=bs, label="fallback backend")
            c.binary = "xcp_fallback"
            cases.append(c)
            rd = "read" if driver == "parfile" else "pread64"
            c = Case(size, driver=driver, workers=1, bs=bs, plan=[("clamp", 2, 3, rd, 1, "{src}")],
                     label="fallback backend + short read")
            c.binary = "xcp_fallback"
            cases.append(c)
    if not quick:
        for _ in range(600):
            driver = rng.choice(drivers)
            bs = rng.choice([64, 1000, B, 5 * B, "noprogress"])
            size = rng.randrange(1, 40 * (bs if bs != "noprogress" else 3000))
            plan = []
            for _k in range(rng.choice([1, 1, 2, 3])):
                plan.append(clamp_cfr(rng.randrange(1, 6), rng.randrange(1, max(2, min(size, bs if bs != "noprogress" else size)))))
            if rng.random() < 0.3:
                plan.append(fail_cfr(rng.choice([0, 1, 2, 3]), rng.choice([38, 18, 1])))
            cases.append(Case(size, driver=driver, workers=rng.choice([1, 2, 4]), bs=bs, plan=plan, label="random plan"))
    # extent mapping that disagrees with what read() sees: a region reserved with fallocate and written through the page cache
    # is flagged `unwritten` until writeback; whether the kernel offers an extent map at all (FIEMAP EOPNOTSUPP) or flags
    # its extents this way must not change the bytes that arrive
    MiB_ = 1 << 20
    for driver in ("parfile", "parblock"):
        for fiemap_ok in (True, False):
            c = Case(8 * MiB_, data=[(MiB_, MiB_ + 300001)], driver=driver, workers=rng.choice([1, 2, 4]), bs=rng.choice([65536, "noprogress"]),
                     reflink="never", prior="absent",
                     plan=([] if fiemap_ok else [("fail", 95, 0, "ioctl", 0, "{src}")]), label="preallocated, written, not yet synced")
            c.prealloc = [(MiB_, 300001)]
            cases.append(c)
    return cases


def nontrivial(case, o):
    # the plan actually fired: some call was clamped / failed / the fallback ran
    inj = any(e.get("inj") for e in o.run.trace)
    return inj or getattr(case, "binary", "xcp") != "xcp"


def run(ctx, out):
    ctx.bins["xcp_fallback"] = core.build_rust_fallback()
    out.rule = ("single files under an oracle plan applied by the ptrace supervisor: the n-th copy_file_range (or read/pread/"
                "write/pwrite of the user-space loops) clamped to k bytes, copy_file_range failed with ENOSYS/EXDEV/EPERM at "
                "the first/second/every call, FICLONE with EOPNOTSUPP/EINVAL/EXDEV, FIEMAP with EOPNOTSUPP, read/write with "
                "EINTR, written-zero chunks followed by data under short reads / writes, sparse sources of unaligned length with no kernel copy and a short read / write in each range, plus the binary built without the Linux backend; non-trivial = an injection fired (or fallback "
                "backend); distinct = distinct (case, plan)")
    datapath.run_cases(ctx, out, gen(ctx), "C05", c01.oracle, nontrivial)
