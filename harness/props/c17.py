"""C17 — --gitignore copies exactly the entries the root .gitignore does not exclude."""
import os
import shutil
import subprocess

import core
import treecase
import trees
import xcp

NAMES = ["a", "b", "c", "foo", "bar", "baz.txt", "x.o", "y.o", "main.c", "build", "target", "docs", "tmp", "log.txt",
         ".hidden", ".cfg", "Makefile", "a.b.c", "foo1", "foo2"]


def gen_tree(rng, depth, links=0.0):
    ch = {}
    for _ in range(rng.randrange(2, 7)):
        n = rng.choice(NAMES)
        if os.fsencode(n) in ch:
            continue
        if depth > 0 and rng.random() < 0.4:
            ch[os.fsencode(n)] = gen_tree(rng, depth - 1, links)
        else:
            ch[os.fsencode(n)] = ("file", rng.randrange(0, 50), {})
    if links and rng.random() < links:
        # symbolic links (copied as links: no -L here): to a sibling directory, to a sibling file, dangling.  To git a link is
        # never a directory — `name/` does not exclude it, `name` does
        dirs = [k for k, v in ch.items() if v[0] == "dir"]
        files = [k for k, v in ch.items() if v[0] == "file"]
        for (lname, pool) in ((rng.choice(["latest", "current", "build", "docs"]), dirs), (rng.choice(["alias", "tmp", "x.o"]), files),
                              (rng.choice(["gone", "log.txt"]), None)):
            if os.fsencode(lname) in ch or rng.random() < 0.3:
                continue
            if pool is None:
                ch[os.fsencode(lname)] = ("link", b"does-not-exist")
            elif pool:
                ch[os.fsencode(lname)] = ("link", rng.choice(pool))
    return ("dir", ch, {})


def gen_patterns(rng, tree):
    """patterns from the property's language: literals, * ? **/ trailing / leading / ! comments blanks"""
    rels = [os.fsdecode(r) for r, n in trees.walk_files(tree) if r]
    pats = []
    for _ in range(rng.randrange(1, 7)):
        r = rng.random()
        base = rng.choice(rels) if rels and rng.random() < 0.7 else rng.choice(NAMES)
        name = os.path.basename(base)
        if r < 0.12:
            p = "# a comment " + name
        elif r < 0.18:
            p = ""
        elif r < 0.35:
            p = name
        elif r < 0.5:
            stem, dot, ext = name.partition(".")
            p = "*." + ext if dot and ext else name[:1] + "*"
        elif r < 0.58:
            p = name[:-1] + "?" if len(name) > 1 else "?"
        elif r < 0.68:
            p = "**/" + name
        elif r < 0.78:
            p = name + "/"
        elif r < 0.88:
            p = "/" + base
        else:
            p = base
        if rng.random() < 0.2 and p and not p.startswith("#"):
            p = "!" + p.lstrip("!")
        pats.append(p)
    return pats


def git_ignored(repo, rels):
    """verdicts by git itself: check-ignore --no-index on every path"""
    if not rels:
        return set()
    inp = b"\0".join(rels) + b"\0"
    r = subprocess.run(["git", "-C", repo, "check-ignore", "--no-index", "-z", "--stdin"], input=inp, capture_output=True)
    out = set(x for x in r.stdout.split(b"\0") if x)
    return out


def run(ctx, out):
    rng = ctx.rng
    quick = ctx.tier == "quick"
    out.rule = ("generated trees (depth<=3; every third with symbolic links to directories, to files and dangling, named by patterns with and without a trailing slash) x .gitignore files of 1-6 patterns from the property's language (literal, *, ?, **/, "
                "trailing /, leading /, ! negation, comments, blank lines): (1) real xcp --gitignore copy set, both drivers; "
                "(2) git check-ignore --no-index per path with pruning by ancestors; (3) the Gallina walk with the real ignore "
                "crate's verdicts as `keep`; also without the flag. non-trivial = at least one entry excluded; distinct by "
                "(tree, patterns)")
    out.assumptions.append("C17: that the ignore crate implements git's glob semantics is validated against git, not proved")
    d0 = ctx.work.fresh("c17")
    n = 70 if quick else 2000
    batch = []
    for k in range(n):
        d = os.path.join(d0, "g%d" % k)
        os.makedirs(d)
        withlinks = (k % 3 == 1)
        tree = gen_tree(rng, rng.choice([1, 2, 3]), links=0.9 if withlinks else 0.0)
        pats = gen_patterns(rng, tree)
        if withlinks:
            lk = [os.fsdecode(r) for r, n in trees.walk_files(tree) if r and n[0] == "link"]
            for r in lk[:3]:
                nm = os.path.basename(r)
                pats.append(rng.choice([nm + "/", nm, "/" + r, "**/" + nm + "/", r + "/"]))
            out.count("trees_with_symlinks")
        selfnamed = (k % 6 == 5)
        if selfnamed:
            # a top-level directory whose name is (or begins with) the spelling of the source itself, and patterns anchored
            # at the root that name what lies INSIDE it one level further down: `/build` excludes src/build, never
            # src/src/build — the matcher must see each path relative to the root exactly once
            inner = gen_tree(rng, 1)
            if not any(v[0] == "dir" for v in inner[1].values()):
                inner[1][b"build"] = ("dir", {b"x.o": ("file", 3, {}), b"keep.c": ("file", 4, {})}, {})
            tree[1][os.fsencode(rng.choice(["src", "srcs", "src.d"]))] = inner
            for nm, v in list(inner[1].items())[:3]:
                nm = os.fsdecode(nm)
                pats.append("/" + nm)
                if v[0] == "dir" and v[1]:
                    pats.append(nm + "/" + os.fsdecode(sorted(v[1])[0]))
            out.count("self_named_subtree")
        use_flag = rng.random() < 0.9 or selfnamed
        src = os.path.join(d, "src")
        trees.materialise(tree, os.fsencode(src))
        gitxt = "\n".join(pats) + "\n"
        open(os.path.join(src, ".gitignore"), "w").write(gitxt)
        # reference repository for git itself (same layout)
        ref = os.path.join(d, "ref")
        shutil.copytree(src, ref, symlinks=True)
        subprocess.run(["git", "init", "-q", ref], capture_output=True)
        _, entries = treecase.scan(os.fsencode(src), False)
        rels = [r for r, _, _ in entries if r]
        relb = [b"/".join(r) for r in rels]
        ign_git = git_ignored(ref, relb)
        # an entry is excluded iff it or an ancestor is ignored
        def excluded(rel):
            return any(b"/".join(rel[:i]) in ign_git for i in range(1, len(rel) + 1))
        expect = {b"/".join(r) for r in rels if not (use_flag and excluded(r))}
        # real xcp
        driver = rng.choice(["parfile", "parblock"])
        os.mkdir(os.path.join(d, "dst"))
        # how the source is spelled on the command line must not matter
        spelling = rng.choice(["abs", "rel", "dotrel", "dotdot", "slash", "abs", "dotend", "dslash", "absdotend"]) if not selfnamed else rng.choice(["rel", "rel", "slash", "dotrel", "dotend"])
        os.mkdir(os.path.join(d, "sub"))
        sarg = {"abs": src, "rel": "src", "dotrel": "./src", "dotdot": "sub/../src", "slash": "src/", "dotend": "src/.", "dslash": "src//",
                "absdotend": src + "/."}[spelling]
        out.count("spelling_" + spelling)
        argv = [ctx.bins["xcp"], "-r", "--driver", driver, "-w", "2"] + (["--gitignore"] if use_flag else []) + [sarg, os.path.join(d, "dst")]
        r = xcp.run_plain(argv, d)
        got = set()
        base = os.fsencode(os.path.join(d, "dst", "src"))
        for root, dirs, files in os.walk(base):
            for nme in dirs + files:
                got.add(os.path.relpath(os.path.join(root, nme), base))
        rep = dict(patterns=pats, tree=trees.describe(tree, 20), flag=use_flag, driver=driver, source_spelling=sarg, exit=r.exit, stderr=r.stderr[-200:])
        nexcl = len(rels) - len(expect)
        out.case(("gi", tuple(pats), tuple(relb), use_flag), nontrivial=nexcl > 0)
        out.count("excluded_%s" % ("0" if nexcl == 0 else "1-3" if nexcl <= 3 else "4+"))
        if r.exit != 0:
            out.violation("xcp --gitignore failed: exit %d" % r.exit, rep)
        elif got != expect:
            extra = sorted(got - expect)[:4]
            missing = sorted(expect - got)[:4]
            out.violation("copied set differs from git's not-ignored set: copied but excluded by git %r; not copied but "
                          "not excluded %r" % (extra, missing), rep)
        # the crate's verdicts -> keep for the model
        if use_flag:
            inp = "".join("%s %d\n" % (b"/".join(rr).hex() or "-", 1 if kk == "dir" else 0) for rr, kk, _ in entries)
            # the matcher is asked exactly as xcp asks it: same source spelling, same working directory
            pr = subprocess.run([ctx.bins["probe"], "gitignore", sarg], input=inp, capture_output=True, text=True, cwd=d)
            verd = pr.stdout.split()
            ign_crate = [rr for (rr, _, _), v in zip(entries, verd) if v == "1"]
        else:
            ign_crate = []
        tenc, _ = treecase.scan(os.fsencode(src), False)
        batch.append((rep, ign_crate, tenc, got))
        out.sample(dict(patterns=pats, entries=len(rels), excluded=nexcl, flag=use_flag), limit=6)
        shutil.rmtree(d, ignore_errors=True)
    # several sources in one invocation: each is filtered by ITS OWN root .gitignore (or by none)
    n2 = 24 if quick else 400
    for k in range(n2):
        d = os.path.join(d0, "m%d" % k)
        os.makedirs(d)
        names = ["alpha", "beta", "gamma"][:rng.choice([2, 2, 3])]
        expect = set()
        allpats = {}
        union = ("dir", {}, {})
        specs = {}
        for nm in names:
            specs[nm] = gen_tree(rng, rng.choice([1, 2]))
            union[1].update(specs[nm][1])
        for nm in names:
            tree = specs[nm]
            src = os.path.join(d, nm)
            trees.materialise(tree, os.fsencode(src))
            has = rng.random() < 0.6
            pats = gen_patterns(rng, union) if has else None
            allpats[nm] = pats
            if has:
                open(os.path.join(src, ".gitignore"), "w").write("\n".join(pats) + "\n")
            ref = os.path.join(d, "ref_" + nm)
            shutil.copytree(src, ref, symlinks=True)
            subprocess.run(["git", "init", "-q", ref], capture_output=True)
            _, entries = treecase.scan(os.fsencode(src), False)
            rels = [r for r, _, _ in entries if r]
            ign_git = git_ignored(ref, [b"/".join(r) for r in rels]) if has else set()
            for r in rels:
                if not any(b"/".join(r[:i]) in ign_git for i in range(1, len(r) + 1)):
                    expect.add(os.fsencode(nm) + b"/" + b"/".join(r))
            expect.add(os.fsencode(nm))
        order = list(names)
        # sources that are NOT directories (a plain file, a link to a file) travel in the same invocation: the option is
        # per directory source, they neither have a .gitignore nor change anyone else's
        extra_kind = rng.choice(["none", "file", "file", "link", "two-files"])
        if extra_kind in ("file", "two-files"):
            open(os.path.join(d, "NOTES.txt"), "w").write("notes")
            order.append("NOTES.txt")
            expect.add(b"NOTES.txt")
        if extra_kind == "two-files":
            open(os.path.join(d, "b.log"), "w").write("log")      # its NAME may match a pattern of some source: irrelevant
            order.append("b.log")
            expect.add(b"b.log")
        if extra_kind == "link":
            open(os.path.join(d, "real.dat"), "w").write("real")
            os.symlink("real.dat", os.path.join(d, "lnk.dat"))
            order.append("lnk.dat")
            expect.add(b"lnk.dat")
        out.count("multi_extra_" + extra_kind)
        rng.shuffle(order)
        rel = rng.random() < 0.5
        driver = rng.choice(["parfile", "parblock"])
        os.mkdir(os.path.join(d, "dst"))
        argv = [ctx.bins["xcp"], "-r", "--gitignore", "--driver", driver, "-w", "2"] + \
            [(x if rel else os.path.join(d, x)) for x in order] + [os.path.join(d, "dst")]
        r = xcp.run_plain(argv, d)
        got = set()
        base = os.fsencode(os.path.join(d, "dst"))
        for root, dirs, files in os.walk(base):
            for nme in dirs + files:
                got.add(os.path.relpath(os.path.join(root, nme), base))
        rep = dict(kind="multi-source", order=order, patterns=allpats, relative=rel, driver=driver, exit=r.exit, stderr=r.stderr[-200:])
        out.case(("gim", k, tuple(order), rel), nontrivial=any(v for v in allpats.values()))
        out.count("multi_source")
        if r.exit != 0:
            out.violation("xcp --gitignore with several sources failed: exit %d" % r.exit, rep)
        elif got != expect:
            out.violation("several sources: copied set differs from what each source's own .gitignore allows: copied but excluded %r; "
                          "not copied but not excluded %r" % (sorted(got - expect)[:4], sorted(expect - got)[:4]), rep)
        shutil.rmtree(d, ignore_errors=True)
    if ctx.model_ok:
        models = treecase.model_walk([(False, False, b[1], [], b[2]) for b in batch])
        for (rep, ign, tenc, got), m in zip(batch, models):
            if m["wf"] != 1 or m["ok"] != 1:
                continue
            mset = {b"/".join(a[1]) for a in m["acts"] if a[0] in ("copy", "mkdir", "link", "special") and a[1]}
            if mset != got and rep["exit"] == 0:
                out.corr("R1-walker-with-crate-verdicts", rep, sorted(repr(x) for x in mset)[:20], sorted(repr(x) for x in got)[:20])
