"""C06 — outcome independent of thread interleaving, worker count and driver.

Correspondence (R2 for the protocol models): every supervised run of the real
xcp is projected to the events of ConcBlock/ConcFile (open / block written /
finalised / inline) per destination file, and the projected history is judged
INSIDE Coq by ConcOutcome.history_ok (the function the theorems of props/C06.v
are about) against the operation list the model derives from the tree (block
counts from Blocks.nblocks).  Direct oracle (failing-input search): the final
snapshot and exit status of every run of one case must be identical across
hold seeds, worker counts and drivers and equal to the reference (parfile,
one worker, no holds); a directory must exist before anything is created in
it; no data call on a file may complete after its finalisation started."""
import os
import shutil

import core
import fsutil
import trees
import xcp

META_SYS = ("fchmod", "fchown", "utimensat", "fsetxattr", "fsync", "fdatasync")


def build_tree(rng, root, k, big):
    """a source tree mixing many small files, multi-block files, nested directories and links"""
    sizes = trees.SizeAlloc(rng, small=True)
    spec = trees.gen_dir(rng, depth=rng.choice([1, 2, 3]), fanout=rng.choice([3, 4, 6]), sizes=sizes, odd_names=0.15,
                         links=0.12, specials=0.0, empty_dirs=0.1, meta=True)
    # make sure there are multi-block files
    for i in range(big):
        spec[1][b"big%d.bin" % i] = ("file", rng.choice([16384 * 3, 16384 * 5 + 17, 200000, 16384 * 8 - 1, 16384 * 2]),
                                     dict(mode=rng.choice([0o644, 0o600, 0o4755]), mtime_ns=981173106_123456789 + i))
    if not any(n[0] == "link" for _, n in trees.walk_files(spec)):
        spec[1][b"lnk"] = ("link", b"big0.bin")
    trees.materialise(spec, os.fsencode(root))
    return spec


def dest_snapshot(d):
    snap = xcp.snapshot(os.fsencode(d))
    out = {}
    for p, e in snap.items():
        keys = ["kind", "link", "rdev"]
        if e["kind"] == "file":
            keys += ["size", "sha", "mode", "mtime_ns", "xattr", "uid", "gid"]
        elif e["kind"] != "link":
            keys += ["mode"]        # directories and special files: what the creation mask made of the requested mode
        out[p] = tuple((k, repr(e.get(k))) for k in keys)
    return out


def project(run, src_root, dst_root, bs):
    """-> (files: {dest path: dict(kind, len)}, events [(pos, tag, path, b)], problems)"""
    files = {}
    events = []
    problems = []
    mkdir_done = {}
    created_at = {}
    final_started = {}
    for e in run.trace:
        s = e["sys"]
        ret = e.get("ret")
        if ret is None:
            continue
        p1, p2 = e["p1"], e["p2"]
        if s in ("mkdir", "mkdirat") and p1.startswith(dst_root) and (ret == 0):
            mkdir_done[os.path.normpath(p1)] = e["x"]
        if s in ("openat", "open") and p1.startswith(dst_root):
            flags = e["a"][2] if s == "openat" else e["a"][1]
            if (flags & os.O_CREAT) and ret >= 0:
                files.setdefault(p1, dict(kind=1))
                events.append((e["x"], 0, p1, 0))
                created_at[p1] = e["e"]
        elif s == "copy_file_range" and p2.startswith(dst_root) and ret > 0:
            events.append((e["x"], 1, p2, e["po"] // bs, e["po"], ret))
        elif s in ("pwrite64", "write") and p1.startswith(dst_root) and ret > 0:
            events.append((e["x"], 1, p1, e["pi"] // bs, e["pi"], ret))
        elif s in META_SYS and p1.startswith(dst_root):
            if p1 not in final_started:
                final_started[p1] = e["e"]
                events.append((e["e"], 2, p1, 0))
        elif s in ("symlink", "symlinkat") and p1.startswith(dst_root) and ret == 0:
            files.setdefault(p1, dict(kind=0))
            events.append((e["x"], 3, p1, 0))
            created_at[p1] = e["e"]
        elif s in ("mknod", "mknodat") and p1.startswith(dst_root) and ret == 0:
            files.setdefault(p1, dict(kind=0))
            events.append((e["x"], 3, p1, 0))
            created_at[p1] = e["e"]
    # a file with neither perms nor timestamps has no finalisation call: use close of the destination
    # (not needed with the default options used here)
    # directory before child
    for p, at in created_at.items():
        parent = os.path.dirname(os.path.normpath(p))
        if parent in mkdir_done and mkdir_done[parent] > at:
            problems.append("%s was created (entry %d) before its directory existed (mkdir exit %d)" % (p, at, mkdir_done[parent]))
    for p, done in mkdir_done.items():
        parent = os.path.dirname(p)
        if parent in mkdir_done and mkdir_done[parent] > done:
            problems.append("directory %s created before its parent" % p)
    # data after finalisation started
    for ev in events:
        if ev[1] == 1 and ev[2] in final_started and ev[0] > final_started[ev[2]]:
            problems.append("data call on %s completed (exit %d) after its finalisation started (entry %d)"
                            % (ev[2], ev[0], final_started[ev[2]]))
    events.sort(key=lambda t: t[0])
    return files, events, problems


def encode_history(files, events, bs):
    """collapse the data calls of one block into one `block written` event (at the call completing the block)"""
    paths = sorted(files)
    idx = {p: i for i, p in enumerate(paths)}
    enc = [len(paths)]
    for p in paths:
        f = files[p]
        if f["kind"] == 0:
            enc += [0, 0, 1]
        else:
            enc += [1, f["len"], bs]
    progress = {}
    evl = []
    for ev in events:
        tag, p = ev[1], ev[2]
        if p not in idx:
            continue
        if tag == 1:
            b, off, n = ev[3], ev[4], ev[5]
            flen = files[p].get("len", 0)
            want = min(bs, flen - b * bs)
            progress[(p, b)] = progress.get((p, b), 0) + n
            if progress[(p, b)] >= want and (off + n) >= min(flen, (b + 1) * bs):
                evl += [1, idx[p], b]
        else:
            evl += [tag, idx[p], 0]
    return enc + evl, paths


def run(ctx, out):
    rng = ctx.rng
    quick = ctx.tier == "quick"
    sup = core.build_sup()
    d0 = ctx.work.fresh("c06")
    bs = 16384
    out.rule = ("trees mixing small files, multi-block files (block size 16 KiB: 2..13 blocks), nested directories and links; "
                "each case is run under the ptrace supervisor with random holding of threads at system-call entries "
                "(several seeds), workers 1/2/4/16/64, both drivers; every run's exit status and destination snapshot (paths, "
                "kinds, bytes, link text, mode, mtime ns, xattrs, owner) must equal the reference run's; every trace is projected "
                "to open/block/finalise/inline events and judged by ConcOutcome.history_ok inside Coq; non-trivial = run with >= 2 "
                "workers and a multi-block file; plus second copies with --backup numbered over the result of a first copy, many files "
                "with confusable names (non-UTF-8 twins, backup-like suffixes), same comparison across drivers / workers / seeds; plus trees of directories, FIFOs and files whose creations are held so that they overlap (modes of directories and nodes compared too); plus a copy onto a 512 KiB tmpfs that fills up, every driver / worker count / block size; distinct = (case, driver, workers, seed)")
    ncases = 6 if quick else 40
    seeds = [1, 2, 3] if quick else list(range(1, 11))
    worker_sets = [1, 2, 4, 16] if quick else [1, 2, 3, 4, 8, 16, 64]
    minputs, mmeta = [], []
    for k in range(ncases):
        d = os.path.join(d0, "case%d" % k)
        os.makedirs(d)
        src = os.path.join(d, "src")
        spec = build_tree(rng, src, k, big=rng.choice([1, 2, 3]))
        nfiles = sum(1 for _, n in trees.walk_files(spec) if n[0] == "file")
        out.count("files_in_trees", nfiles)
        extra = rng.choice([[], ["--fsync"], ["--ownership"], []])
        ref_snap = None
        ref_exit = None
        runs = [("parfile", 1, None)]
        for driver in ("parfile", "parblock"):
            for w in worker_sets:
                for sd in (seeds if w > 1 else seeds[:1]):
                    runs.append((driver, w, sd))
        if quick:
            # keep the reference plus a spread
            rest = runs[1:]
            rng.shuffle(rest)
            runs = runs[:1] + rest[:14]
        for (driver, w, sd) in runs:
            dst = os.path.join(d, "dst")
            shutil.rmtree(dst, ignore_errors=True)
            argv = [ctx.bins["xcp"], "-r", "--driver", driver, "-w", str(w), "--block-size", str(bs)] + extra + ["src", "dst"]
            kw = {}
            cfr = None
            if sd is not None:
                kw = dict(seed=sd * 7919 + k, hold_permille=rng.choice([60, 150, 300]), hold_maxms=rng.choice([2, 5, 12]))
                if rng.random() < 0.3:
                    # the kernel copy is unavailable: every transfer goes through the user-space fallback
                    cfr = rng.choice([38, 18, 1])
                    kw["rules"] = [("fail", cfr, 0, "copy_file_range", 0, "*")]
                    out.count("copy_file_range_unavailable")
            r = xcp.run_supervised(sup, argv, d, d, tag="r", timeout_ms=60000, **kw)
            out.case((k, driver, w, sd), nontrivial=(w >= 2))
            out.count("driver_" + driver)
            out.count("workers_%d" % w)
            rep = dict(case=k, argv=argv[1:], cfr_errno=cfr, seed=kw.get("seed"), hold=(kw.get("hold_permille"), kw.get("hold_maxms")),
                       tree=trees.describe(spec, 20))
            if r.meta.get("timeout"):
                out.violation("xcp did not terminate under schedule seed %r" % (kw.get("seed"),), rep)
                continue
            snap = dest_snapshot(dst) if os.path.isdir(dst) else {}
            if ref_snap is None:
                ref_snap, ref_exit = snap, r.exit
                if r.exit != 0:
                    out.violation("reference run failed: %s" % r.stderr[-200:], rep)
                    break
            else:
                if r.exit != ref_exit:
                    out.violation("exit status %d differs from the reference run's %d (%s)" % (r.exit, ref_exit, r.stderr[-200:]), rep)
                elif snap != ref_snap:
                    diff = [p for p in sorted(set(snap) | set(ref_snap)) if snap.get(p) != ref_snap.get(p)][:3]
                    what = []
                    for p in diff:
                        a, b = dict(ref_snap.get(p, ())), dict(snap.get(p, ()))
                        ks = [x for x in set(a) | set(b) if a.get(x) != b.get(x)]
                        what.append("%r: %s" % (p, ", ".join("%s %s -> %s" % (x, a.get(x), b.get(x)) for x in ks)))
                    out.violation("destination differs from the reference run (driver %s, %d workers, seed %r): %s"
                                  % (driver, w, kw.get("seed"), "; ".join(what)), rep)
            # projection
            dst_root = os.path.join(d, "dst")
            files, events, problems = project(r, os.path.join(d, "src"), dst_root, bs)
            for pr in problems[:2]:
                out.violation(pr, rep)
            if r.exit == 0:
                for p, f in files.items():
                    if f["kind"] == 1:
                        # the model's length is the SOURCE's
                        rel = os.path.relpath(p, dst_root)
                        sp = os.path.join(d, "src", rel)
                        try:
                            f["len"] = os.stat(sp).st_size
                        except OSError:
                            f["len"] = 0
                enc, paths = encode_history(files, events, bs)
                minputs.append(enc)
                mmeta.append((rep, paths, driver, w))
        shutil.rmtree(d, ignore_errors=True)
    # ---- the same question for an OVERWRITE with numbered backups: a second copy, with changed contents, over the result of
    #      a first one — many small files whose names are easily confused (differing only in bytes that are not UTF-8, or in
    #      the backup-like suffix), so that every file's backup must get a name of its own whatever the order of the workers
    ncases2 = 2 if quick else 12
    for k2 in range(ncases2):
        d = os.path.join(d0, "bk%d" % k2)
        srcb = os.path.join(os.fsencode(d), b"src")
        names = []
        for sub in range(6 if quick else 20):
            sd_ = os.path.join(srcb, b"d%02d" % sub)
            os.makedirs(sd_)
            for nm in (b"n\xff", b"n\xfe", b"n\xc3\xa9", b"plain", b"plain.~1~", b"n"):
                open(os.path.join(sd_, nm), "wb").write(b"first " + nm + b" %d\n" % sub)
                names.append(os.path.join(b"d%02d" % sub, nm))
        first = xcp.run_plain([ctx.bins["xcp"], "-r", "-T", "--driver", "parfile", "-w", "1", "src", "dst0"], d)
        if first.exit != 0:
            out.violation("first copy failed: %s" % first.stderr[-200:], dict(case="backup-overwrite", k=k2))
            shutil.rmtree(d, ignore_errors=True)
            continue
        for rel in names:
            open(os.path.join(srcb, rel), "wb").write(b"second version of " + rel + b"\n" * 3)
        ref_snap = ref_exit = None
        runs2 = [("parfile", 1, None)] + [(drv, w, sd) for drv in ("parfile", "parblock") for w in (2, 4, 16) for sd in ((1, 2) if quick else (1, 2, 3, 4, 5))]
        if quick:
            rest = runs2[1:]
            rng.shuffle(rest)
            runs2 = runs2[:1] + rest[:8]
        for (driver, w, sd) in runs2:
            dst = os.path.join(d, "dst")
            shutil.rmtree(dst, ignore_errors=True)
            shutil.copytree(os.path.join(os.fsencode(d), b"dst0"), os.fsencode(dst), symlinks=True)
            argv = [ctx.bins["xcp"], "-r", "-T", "--backup", "numbered", "--driver", driver, "-w", str(w), "src", "dst"]
            kw = dict(seed=sd * 104729 + k2, hold_permille=rng.choice([100, 250]), hold_maxms=rng.choice([2, 6])) if sd is not None else {}
            r = xcp.run_supervised(sup, argv, d, d, tag="b", timeout_ms=60000, **kw)
            out.case(("backup-overwrite", k2, driver, w, sd), nontrivial=(w >= 2))
            out.count("backup_overwrite_runs")
            rep = dict(case="second copy with --backup numbered over the first, %d files with confusable names" % len(names), argv=argv[1:],
                       seed=kw.get("seed"))
            snap = {p_: v for p_, v in dest_snapshot(dst).items()}
            # mtimes of the fresh copies are the sources' (identical across runs); backups keep the first copy's
            if ref_snap is None:
                ref_snap, ref_exit = snap, r.exit
                if r.exit != 0:
                    out.violation("reference overwrite failed: %s" % r.stderr[-200:], rep)
                    break
            elif r.exit != ref_exit:
                out.violation("exit status %d differs from the reference run's %d" % (r.exit, ref_exit), rep)
            elif snap != ref_snap:
                diff = [p_ for p_ in sorted(set(snap) | set(ref_snap)) if snap.get(p_) != ref_snap.get(p_)][:4]
                out.violation("overwrite with numbered backups: the destination differs from the reference run's (driver %s, %d workers, seed %r) "
                              "at %r" % (driver, w, kw.get("seed"), diff), rep)
        shutil.rmtree(d, ignore_errors=True)
    # ---- directories, special files and regular files created side by side by different threads: what each of them is
    #      created WITH (the mode left by the process's creation mask) must not depend on what another thread is doing at
    #      that moment; node creation and directory creation are slowed down so that they overlap in every order
    ncases3 = 2 if quick else 10
    for k3 in range(ncases3):
        d = os.path.join(d0, "sp%d" % k3)
        src = os.path.join(d, "src")
        os.makedirs(src)
        for i in range(rng.choice([16, 24])):
            sub = os.path.join(src, "d%02d" % i, "inner")
            os.makedirs(sub)
            open(os.path.join(sub, "f"), "wb").write(b"x" * rng.randrange(1, 5000))
            os.chmod(os.path.join(sub, "f"), rng.choice([0o644, 0o600, 0o755]))
            os.mkfifo(os.path.join(src, "p%02d" % i))
            os.chmod(os.path.join(src, "p%02d" % i), rng.choice([0o666, 0o640, 0o600, 0o622]))
            if i % 5 == 0:
                os.mkfifo(os.path.join(sub, "q"))
        extra = rng.choice([[], ["--no-perms"], ["--no-perms"]])
        ref_snap = ref_exit = None
        runs3 = [("parfile", 1, False)] + [(drv, w, True) for drv in ("parfile", "parblock") for w in ((2, 4) if quick else (1, 2, 4, 16))]
        for (driver, w, slow) in runs3:
            dst = os.path.join(d, "dst")
            shutil.rmtree(dst, ignore_errors=True)
            argv = [ctx.bins["xcp"], "-r", "-T", "--driver", driver, "-w", str(w)] + extra + ["src", "dst"]
            rules = [("hold", 20, 0, "mknodat", 0, "*"), ("hold", 3, 0, "mkdir", 0, "*"), ("hold", 3, 0, "mkdirat", 0, "*")] if slow else []
            r = xcp.run_supervised(sup, argv, d, d, rules=rules, tag="s", timeout_ms=60000)
            out.case(("nodes-and-dirs", k3, driver, w, slow), nontrivial=slow)
            out.count("nodes_and_dirs_runs")
            rep = dict(case="directories, FIFOs and files created side by side; mknod held 20 ms, mkdir 3 ms" if slow else "reference",
                       argv=argv[1:])
            snap = dest_snapshot(dst) if os.path.isdir(dst) else {}
            if ref_snap is None:
                ref_snap, ref_exit = snap, r.exit
                if r.exit != 0:
                    out.violation("reference run failed: %s" % r.stderr[-200:], rep)
                    break
            elif r.exit != ref_exit:
                out.violation("exit status %d differs from the reference run's %d (%s)" % (r.exit, ref_exit, r.stderr[-200:]), rep)
            elif snap != ref_snap:
                diff = [p_ for p_ in sorted(set(snap) | set(ref_snap)) if snap.get(p_) != ref_snap.get(p_)][:3]
                what = ["%r: %s -> %s" % (p_, dict(ref_snap.get(p_, ())).get("mode"), dict(snap.get(p_, ())).get("mode")) for p_ in diff]
                out.violation("destination differs from the reference run (driver %s, %d workers) while nodes and directories were "
                              "created side by side: %s" % (driver, w, "; ".join(what)), rep)
        shutil.rmtree(d, ignore_errors=True)
    # ---- a destination that FILLS UP (a 512 KiB tmpfs: no kernel copy across file systems, and the write that hits the limit is
    #      short): whether the run fails must not depend on the driver, the worker count or the block size — and exit 0 still
    #      means every byte is there
    import subprocess
    mnt = os.path.join(d0, "small")
    os.makedirs(mnt)
    mounted = subprocess.run(["mount", "-t", "tmpfs", "-o", "size=512k,mode=777", "tmpfs", mnt], capture_output=True).returncode == 0
    if not mounted:
        out.count("small_tmpfs_unavailable")
    else:
        try:
            srcf = os.path.join(d0, "seven.bin")
            fsutil.make_file(srcf, 700000, [(0, 700000)], tag=77, sync=False)
            seen = {}
            for driver in ("parfile", "parblock"):
                for (w, bsopt) in ((1, ["--no-progress"]), (4, ["--no-progress"]), (2, ["--block-size", "65536"]), (4, ["--block-size", "262144"])):
                    for f in os.listdir(mnt):
                        os.unlink(os.path.join(mnt, f))
                    argv = [ctx.bins["xcp"], "--driver", driver, "-w", str(w)] + bsopt + [srcf, os.path.join(mnt, "seven.bin")]
                    r = xcp.run_plain(argv, d0)
                    out.case(("full-destination", driver, w, tuple(bsopt)), True)
                    out.count("full_destination_runs")
                    rep = dict(kind="700000 bytes onto a 512 KiB tmpfs", argv=argv[1:], exit=r.exit, stderr=r.stderr[-200:])
                    complete = os.path.exists(os.path.join(mnt, "seven.bin")) and open(os.path.join(mnt, "seven.bin"), "rb").read() == open(srcf, "rb").read()
                    if r.exit == 0 and not complete:
                        out.violation("exit 0 onto a destination that filled up, but the copy is not complete (driver %s, %d workers, %s)"
                                      % (driver, w, " ".join(bsopt)), rep)
                    seen[(driver, w, tuple(bsopt))] = (r.exit == 0)
            if len(set(seen.values())) > 1:
                out.violation("whether a copy onto a destination that fills up succeeds depends on the driver / worker count / block size: %s"
                              % sorted((k_, "exit 0" if v else "failed") for k_, v in seen.items()), dict(kind="700000 bytes onto a 512 KiB tmpfs"))
        finally:
            subprocess.run(["umount", "-l", mnt], capture_output=True)
    if ctx.model_ok and minputs:
        res = core.run_model("run_history", minputs, shard=8, tag="c06")
        bad_names = {0: "no event", 1: "opened, never finalised", 2: "finalised", 3: "inline", 4: "out of order / repeated"}
        for (rep, paths, driver, w), mo in zip(mmeta, res):
            if mo[0] != 1:
                wrong = [(paths[i], bad_names.get(c, c)) for i, c in enumerate(mo[1:])][:40]
                out.corr("R2-history (ConcOutcome.history_ok)", rep, dict(ok=mo[0], phases=wrong[:6]), "trace projection")
                # is it a real ordering problem?  phase 4 or 1 on a copied file is one
                for i, c in enumerate(mo[1:]):
                    if c in (1, 4):
                        out.violation("the events of %s are not open; each block once; finalise (%s) under %s with %d workers"
                                      % (paths[i], bad_names[c], driver, w), rep)
                        break
    out.extra["histories_judged_in_coq"] = len(minputs)
    out.assumptions.append("projection of supervisor traces to protocol events (harness/props/c06.py: project, encode_history)")
