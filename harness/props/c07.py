"""C07 — xcp always terminates: no deadlock, no spin, with or without errors.

The theorems (props/C07.v over ConcFault.v) say that with ANY placement of
failures no state of either driver's shutdown protocol is stuck before main
has exited and every execution is finite; they assume unbounded operation and
status channels, a pool queue that is the only blocking send, workers that
drain after the pool handle is dropped, and a main loop that leaves on the
first Error.  This check validates exactly those assumptions on the real
binary: trees large enough to fill any plausible bounded queue (> 1024
entries after the fault), single faults at calls of the walker, the
dispatcher, every kind of worker step and the finalisation, all workers of
parfile killed, 1 / 4 / 64 workers, both drivers, FIFOs and sockets in the
tree (never opened), empty trees, and the library entry points (probe copy
with the channel, recording and no-op updaters: copy() returns and the channel
closes).  A run that does not end within the wall-clock bound is the
violation; the replay is the invocation plus the fault plan."""
import concurrent.futures
import os
import shutil
import socket
import subprocess

import core
import xcp

E = xcp.ERRNO


def make_tree(root, nfiles, nfifo, nlinks, nsock=1):
    os.makedirs(root)
    # special files and links FIRST in every plausible readdir order: put them in the root,
    # and the bulk of the files in sub-directories
    for i in range(nfifo):
        os.mkfifo(os.path.join(root, "0fifo%d" % i), 0o644)
    for i in range(nsock):
        s = socket.socket(socket.AF_UNIX)
        cwd = os.getcwd()
        try:
            os.chdir(root)
            s.bind("0sock%d" % i)
        finally:
            os.chdir(cwd)
            s.close()
    open(os.path.join(root, "0first.bin"), "wb").write(b"x" * 40000)
    for i in range(nlinks):
        os.symlink("0first.bin", os.path.join(root, "0link%d" % i))
    per = 150
    for i in range(nfiles):
        sub = os.path.join(root, "d%03d" % (i // per))
        if i % per == 0:
            os.makedirs(sub)
        with open(os.path.join(sub, "f%05d" % i), "wb") as f:
            f.write(b"y" * (1 + i % 50))


def plans(nfiles):
    """(label, rules, expect_nonzero)"""
    late = max(2, nfiles // 3)
    return [
        ("none", [], False),
        ("mknodat-EPERM-every", [("fail", E["EPERM"], 0, "mknodat", 0, "*")], True),      # kills every parfile worker that meets one
        ("mknodat-EIO-first", [("fail", E["EIO"], 0, "mknodat", 1, "*")], True),
        ("symlink-EEXIST-first", [("fail", E["EEXIST"], 0, "symlink", 1, "*")], True),
        ("symlink-EIO-every", [("fail", E["EIO"], 0, "symlink", 0, "*")], True),
        ("cfr-EIO-first", [("fail", E["EIO"], 0, "copy_file_range", 1, "*")], True),
        ("cfr-EIO-late", [("fail", E["EIO"], 0, "copy_file_range", late, "*")], True),
        ("cfr-ENOSPC-every", [("fail", E["ENOSPC"], 0, "copy_file_range", 0, "/dst/")], True),
        ("create-ENOSPC-first", [("fail", E["ENOSPC"], 0, "openat", 1, "/dst/d000/")], True),
        ("create-EMFILE-late", [("fail", E["EMFILE"], 0, "openat", late, "/dst/d")], True),
        # a resource error that does NOT go away by waiting (the limit is held by others): every open under one directory
        ("create-EMFILE-persistent", [("fail", E["EMFILE"], 0, "openat", 0, "/dst/d001/")], True),
        ("src-open-ENFILE-persistent", [("fail", 23, 0, "openat", 0, "/src/d002/f")], True),
        ("ftruncate-EIO", [("fail", E["EIO"], 0, "ftruncate", 3, "*")], True),
        ("getdents-EIO-2nd", [("fail", E["EIO"], 0, "getdents64", 2, "/src")], True),
        ("mkdir-EACCES-2nd", [("fail", E["EACCES"], 0, "mkdir", 2, "*")], True),
        ("fchmod-EPERM-every", [("fail", E["EPERM"], 0, "fchmod", 0, "*")], None),        # finalisation: known class, any exit
        ("src-open-EACCES", [("fail", E["EACCES"], 0, "openat", 5, "/src/d000/f")], True),
        ("statx-EIO-dest", [("fail", E["EIO"], 0, "statx", 7, "/dst")], None),
        ("two-faults", [("fail", E["EIO"], 0, "copy_file_range", 2, "*"), ("fail", E["EPERM"], 0, "mknodat", 1, "*")], True),
    ]


def run(ctx, out):
    rng = ctx.rng
    quick = ctx.tier == "quick"
    sup = core.build_sup()
    d0 = ctx.work.fresh("c07")
    nfiles = 1500 if quick else 6000
    bound_ms = 40000 if quick else 120000
    bound = [bound_ms]
    out.rule = ("(a) CLI: a tree of %d small files in sub-directories preceded by 6 FIFOs, a socket and 4 symlinks; fault plans at "
                "walker / dispatcher / worker / finalisation calls (single, every-occurrence and two-fault plans), both drivers, "
                "workers 1/4/64; each run must end within %d s of wall clock and, for reported-class faults, with a non-zero "
                "status; FIFOs and sockets are never opened; (b) library: probe copy with channel / recording / no-op updaters "
                "under the same kind of faults: copy() returns and the update channel closes; block_size 0 returns an error; "
                "(c) empty trees; (d) a FIFO / socket / directory / dangling link / link-to-FIFO named .gitignore under --gitignore "
                "(root and sub-directory): never opened, run ends; (d') a FIFO source whose destination name is already taken by a directory / "
                "file / link / dangling link / FIFO / socket, with and without -n: the run ends; (d'') second copies with --backup numbered / auto over names of 250-255 bytes; (e) the environment truncates the source at the n-th "
                "copy_file_range / lseek / pread / read on it (dense and sparse, both drivers, kernel copy available or failing "
                "with EXDEV / ENOSYS): the run must end; non-trivial = run with an injected fault; distinct = (plan, driver, workers, entry point)"
                % (nfiles, bound_ms // 1000))
    src_master = os.path.join(d0, "master")
    make_tree(os.path.join(src_master, "src"), nfiles, 6, 4)
    jobs = []
    wsets = (1, 4, 64)
    for (label, rules, expect) in plans(nfiles):
        for driver in ("parfile", "parblock"):
            for w in wsets:
                if quick and label not in ("mknodat-EPERM-every", "symlink-EEXIST-first", "cfr-EIO-first", "getdents-EIO-2nd",
                                           "none") and (w == 64 or (w == 1 and driver == "parblock")):
                    continue
                jobs.append((label, rules, expect, driver, w))

    def one(job, idx):
        (label, rules, expect, driver, w) = job
        d = os.path.join(d0, "r%d" % idx)
        os.makedirs(d)
        os.symlink(os.path.join(src_master, "src"), os.path.join(d, "srclink"))   # shared read-only source
        argv = [ctx.bins["xcp"], "-r", "--driver", driver, "-w", str(w), os.path.join(src_master, "src"), "dst"]
        rr = [(a, p1, p2, s, n, (path if path != "/src" else os.path.join(src_master, "src"))) for (a, p1, p2, s, n, path) in rules]
        r = xcp.run_supervised(sup, argv, d, d0, rules=rr, tag="f", timeout_ms=bound[0])
        opened_special = [e["p1"] for e in r.trace if e["sys"] in ("openat", "open") and
                          ("/0fifo" in e["p1"] or "/0sock" in e["p1"]) and "/src/" in e["p1"]]
        fired = any(e.get("inj") for e in r.trace)
        res = dict(job=job, exit=r.exit, timeout=bool(r.meta.get("timeout")), fired=fired, opened_special=opened_special[:2],
                   stderr=r.stderr[-200:], argv=argv[1:], rules=rr)
        shutil.rmtree(d, ignore_errors=True)
        return res

    with concurrent.futures.ThreadPoolExecutor(max_workers=6) as ex:
        results = list(ex.map(lambda t: one(t[1], t[0]), list(enumerate(jobs))))
    # a run that exceeded the bound while five others were being traced next to it is repeated ALONE with twice
    # the bound before it counts as a hang (the bound is a wall-clock proxy for non-termination)
    for i, res in enumerate(results):
        if res["timeout"] or res["exit"] == 124:
            bound[0] = 2 * bound_ms
            results[i] = one(res["job"], 100000 + i)
            bound[0] = bound_ms
            results[i]["retried"] = True
            out.count("timeouts_retried_alone")
    for res in results:
        (label, rules, expect, driver, w) = res["job"]
        out.case(("cli", label, driver, w), nontrivial=bool(rules))
        out.count("plan_" + label)
        rep = dict(argv=res["argv"], rules=res["rules"], driver=driver, workers=w, plan=label)
        if res["timeout"] or res["exit"] == 124:
            out.violation("xcp did not terminate within %d s (plan %s, %s, %d workers)" % (bound_ms // 1000, label, driver, w), rep)
            continue
        if res["opened_special"]:
            out.violation("a FIFO/socket source was opened: %s" % res["opened_special"], rep)
        if label == "none" and res["exit"] != 0:
            out.violation("fault-free run failed: %s" % res["stderr"], rep)
        if expect is True and res["fired"] and res["exit"] == 0:
            # C04's oracle really; here it keeps the protocol model honest (x_exit_ok_sound / y_exit_ok_sound)
            out.corr("exit class vs ConcFault (a failed step never ends in exit 0)", rep, "exit != 0", "exit 0")
    # (b) library entry points
    lib_jobs = []
    small = os.path.join(d0, "small")
    make_tree(os.path.join(small, "src"), 400 if quick else 2500, 2, 2)
    for upd in ("chan", "rec", "noop"):
        for driver in ("parfile", "parblock"):
            for (label, rules) in [("none", []), ("cfr-EIO-first", [("fail", E["EIO"], 0, "copy_file_range", 1, "*")]),
                                   ("mknodat-EPERM-every", [("fail", E["EPERM"], 0, "mknodat", 0, "*")]),
                                   ("create-ENOSPC", [("fail", E["ENOSPC"], 0, "openat", 30, "/dst/d")]),
                                   ("getdents-EIO", [("fail", E["EIO"], 0, "getdents64", 2, os.path.join(small, "src"))])]:
                for w in ((1, 4) if quick else (1, 4, 64)):
                    lib_jobs.append((upd, driver, label, rules, w))

    def lib(job, idx):
        (upd, driver, label, rules, w) = job
        d = os.path.join(d0, "l%d" % idx)
        os.makedirs(d)
        argv = [ctx.bins["probe"], "copy", driver, str(w), "65536", upd, "--reflink=never", "--", os.path.join(small, "src"), "dst"]
        r = xcp.run_supervised(sup, argv, d, d0, rules=rules, tag="l", timeout_ms=bound[0], fd9=os.path.join(d, "fd9.log"))
        res = dict(job=job, exit=r.exit, timeout=bool(r.meta.get("timeout")), has_ret=("RET " in r.stdout),
                   closed=("CLOSED" in r.stdout), argv=argv[1:], rules=rules, stderr=r.stderr[-200:])
        shutil.rmtree(d, ignore_errors=True)
        return res

    with concurrent.futures.ThreadPoolExecutor(max_workers=6) as ex:
        lres = list(ex.map(lambda t: lib(t[1], t[0]), list(enumerate(lib_jobs))))
    for i, res in enumerate(lres):
        if res["timeout"] or res["exit"] == 124:
            bound[0] = 2 * bound_ms
            lres[i] = lib(res["job"], 100000 + i)
            bound[0] = bound_ms
            out.count("timeouts_retried_alone")
    for res in lres:
        (upd, driver, label, rules, w) = res["job"]
        out.case(("lib", upd, driver, label, w), nontrivial=bool(rules))
        out.count("lib_" + upd)
        rep = dict(argv=res["argv"], rules=res["rules"], updater=upd)
        if res["timeout"] or res["exit"] == 124:
            out.violation("library copy() / update stream did not end (updater %s, %s, plan %s, %d workers)" % (upd, driver, label, w), rep)
            continue
        if not res["has_ret"]:
            out.violation("probe copy produced no result: %s" % res["stderr"], rep)
        if upd == "chan" and not res["closed"]:
            out.violation("the update channel did not close after copy() finished", rep)
    # block size 0 (library): must return, not spin
    for driver in ("parfile", "parblock"):
        d = os.path.join(d0, "bs0_" + driver)
        os.makedirs(d)
        open(os.path.join(d, "f"), "wb").write(b"z" * 5000)
        argv = [ctx.bins["probe"], "copy", driver, "2", "0", "noop", "--reflink=never", "--", "f", "g"]
        r = xcp.run_supervised(sup, argv, d, d, tag="z", timeout_ms=15000)
        out.case(("bs0", driver), True)
        out.count("block_size_zero")
        if r.meta.get("timeout") or r.exit == 124:
            out.violation("library copy with block_size = 0 does not terminate (%s)" % driver, dict(argv=argv[1:]))
        shutil.rmtree(d, ignore_errors=True)
    # (c) empty trees and empty files
    for driver in ("parfile", "parblock"):
        for w in (1, 64):
            d = os.path.join(d0, "empty_%s_%d" % (driver, w))
            os.makedirs(os.path.join(d, "src", "e1", "e2"))
            open(os.path.join(d, "src", "e1", "zero"), "wb").close()
            argv = [ctx.bins["xcp"], "-r", "--driver", driver, "-w", str(w), "src", "dst"]
            r = xcp.run_supervised(sup, argv, d, d, tag="e", timeout_ms=15000)
            out.case(("empty", driver, w), True)
            out.count("empty_trees")
            if r.meta.get("timeout") or r.exit != 0:
                out.violation("empty tree: exit %d timeout %r" % (r.exit, r.meta.get("timeout")), dict(argv=argv[1:]))
            shutil.rmtree(d, ignore_errors=True)
    # (d) inputs whose NAMES make xcp read them: a FIFO / socket / directory / dangling link called .gitignore under
    #     --gitignore (at the root and below it) must be recreated like any other entry, never opened
    import fsutil
    for kind in ("fifo", "sock", "dir", "dangling", "link-to-fifo"):
        for where in ("root", "sub"):
            for driver in ("parfile", "parblock"):
                d = os.path.join(d0, "gi_%s_%s_%s" % (kind, where, driver))
                base = os.path.join(d, "src") if where == "root" else os.path.join(d, "src", "sub")
                os.makedirs(base)
                os.makedirs(os.path.join(d, "src", "other"), exist_ok=True)
                open(os.path.join(d, "src", "other", "a.txt"), "wb").write(b"a" * 100)
                gi = os.path.join(base, ".gitignore")
                if kind == "fifo":
                    os.mkfifo(gi)
                elif kind == "sock":
                    sk = socket.socket(socket.AF_UNIX)
                    cwd = os.getcwd()
                    try:
                        os.chdir(base)
                        sk.bind(".gitignore")
                    finally:
                        os.chdir(cwd)
                        sk.close()
                elif kind == "dir":
                    os.makedirs(gi)
                elif kind == "dangling":
                    os.symlink("nowhere", gi)
                else:
                    os.mkfifo(os.path.join(base, "pipe"))
                    os.symlink("pipe", gi)
                argv = [ctx.bins["xcp"], "-r", "--gitignore", "--driver", driver, "src", "dst"]
                r = xcp.run_supervised(sup, argv, d, d, tag="g", timeout_ms=15000)
                out.case(("gitignore-special", kind, where, driver), True)
                out.count("special_named_gitignore")
                rep = dict(argv=argv[1:], gitignore_is=kind, at=where)
                # an open of the special file itself that succeeded or never returned (a failed attempt on a path that
                # does not exist, or ENXIO from a socket, opens nothing)
                specials = {gi, os.path.join(base, "pipe")} if kind in ("fifo", "sock", "link-to-fifo") else set()
                opened = [e["p1"] for e in r.trace if e["sys"] in ("openat", "open") and e["p1"] in specials
                          and (e.get("ret") is None or e["ret"] >= 0)]
                if r.meta.get("timeout") or r.exit == 124:
                    out.violation("xcp --gitignore does not terminate when .gitignore is a %s (%s of the source)" % (kind, where), rep)
                elif opened:
                    out.violation("a special file named .gitignore was opened: %s" % opened[:2], rep)
                elif r.exit == 0:
                    # a .gitignore that is not a regular file filters nothing and is itself recreated like any entry
                    import stat as _st
                    want = os.lstat(gi).st_mode
                    rel = os.path.relpath(gi, os.path.join(d, "src"))
                    try:
                        got = os.lstat(os.path.join(d, "dst", rel)).st_mode
                    except OSError:
                        got = None
                    if got is None or _st.S_IFMT(got) != _st.S_IFMT(want) or not os.path.exists(os.path.join(d, "dst", "other", "a.txt")):
                        out.violation("--gitignore with a %s named .gitignore: exit 0 but the entry was not recreated / the tree is incomplete" % kind, rep)
                shutil.rmtree(d, ignore_errors=True)
    # (d') what xcp FINDS where a special file has to be recreated: an empty or populated directory, a regular file, a link to a
    #      file / to a directory, a dangling link, a FIFO, a socket — with and without -n: the run must end (replace it, or
    #      refuse), never retry for ever
    for found in ("dir-empty", "dir-populated", "file", "link-to-file", "link-to-dir", "dangling", "fifo", "sock"):
        for driver in ("parfile", "parblock"):
            for extra in ([], ["-n"]):
                if quick and extra and found not in ("dir-empty", "link-to-dir"):
                    continue
                d = os.path.join(d0, "sp_%s_%s_%d" % (found, driver, len(extra)))
                os.makedirs(os.path.join(d, "src"))
                os.makedirs(os.path.join(d, "dst", "src"))
                os.mkfifo(os.path.join(d, "src", "node"))
                open(os.path.join(d, "src", "zfile"), "wb").write(b"z" * 1000)
                t = os.path.join(d, "dst", "src", "node")
                if found.startswith("dir"):
                    os.makedirs(t)
                    if found == "dir-populated":
                        open(os.path.join(t, "inside"), "wb").write(b"i")
                elif found == "file":
                    open(t, "wb").write(b"f")
                elif found == "link-to-file":
                    open(os.path.join(d, "elsewhere"), "wb").write(b"e")
                    os.symlink(os.path.join(d, "elsewhere"), t)
                elif found == "link-to-dir":
                    os.makedirs(os.path.join(d, "elsewhere.d"))
                    os.symlink(os.path.join(d, "elsewhere.d"), t)
                elif found == "dangling":
                    os.symlink("nowhere", t)
                elif found == "fifo":
                    os.mkfifo(t)
                else:
                    sk = socket.socket(socket.AF_UNIX)
                    cwd = os.getcwd()
                    try:
                        os.chdir(os.path.dirname(t))
                        sk.bind("node")
                    finally:
                        os.chdir(cwd)
                        sk.close()
                argv = [ctx.bins["xcp"], "-r", "--driver", driver, "-w", "2"] + extra + ["src", "dst"]
                r = xcp.run_supervised(sup, argv, d, d, tag="q", timeout_ms=15000)
                out.case(("special-onto-existing", found, driver, tuple(extra)), True)
                out.count("special_onto_existing_entry")
                if r.meta.get("timeout") or r.exit == 124:
                    out.violation("xcp does not terminate when a %s sits where a FIFO has to be recreated (%s%s; %d calls traced before the bound)"
                                  % (found, driver, " -n" if extra else "", len(r.trace)), dict(argv=argv[1:], found=found))
                shutil.rmtree(d, ignore_errors=True)
    # (d'') names at the limit: a second copy with backups over files whose names are 250..255 bytes long — `<name>.~N~` does not
    # fit in a directory entry for the longest of them; whatever xcp decides (fail, or find a name), it must END
    for driver in ("parfile", "parblock"):
        for mode in ("numbered", "auto"):
            for w in ((1, 4) if not quick else (rng.choice([1, 4]),)):
                d = os.path.join(d0, "longnames_%s_%s_%d" % (driver, mode, w))
                os.makedirs(os.path.join(d, "src"))
                for i, ln in enumerate((10, 250, 251, 252, 253, 255)):
                    open(os.path.join(d, "src", (chr(97 + i) * ln)), "wb").write(b"first version %d" % i)
                first = xcp.run_plain([ctx.bins["xcp"], "-r", "-T", "src", "dst"], d)
                for i, ln in enumerate((10, 250, 251, 252, 253, 255)):
                    open(os.path.join(d, "src", (chr(97 + i) * ln)), "wb").write(b"second version %d" % i)
                    if mode == "auto" and ln >= 251:
                        pass
                argv = [ctx.bins["xcp"], "-r", "-T", "--backup", mode, "--driver", driver, "-w", str(w), "src", "dst"]
                r = xcp.run_supervised(sup, argv, d, d, tag="ln", timeout_ms=20000)
                out.case(("long-names-backup", driver, mode, w), True)
                out.count("long_name_backup_runs")
                if first.exit != 0:
                    out.violation("plain copy of files with long names failed: %s" % first.stderr[-200:], dict(argv=argv[1:]))
                elif r.meta.get("timeout") or r.exit == 124:
                    out.violation("xcp did not end within 20 s: second copy with --backup %s over files whose names are up to 255 bytes long (%s, %d workers)"
                                  % (mode, driver, w), dict(argv=argv[1:], names="lengths 10, 250, 251, 252, 253, 255"))
                subprocess.run(["rm", "-rf", d], capture_output=True)
    # (e) the ENVIRONMENT shrinks a source while it is being copied (the supervisor truncates it at a chosen call of
    #     xcp on that file): every loop must notice the lack of progress — dense and sparse sources, both drivers,
    #     kernel copy available or not (user-space fallbacks), truncation to 0 / to the current position / mid-block
    bs = 16384
    layouts = [("dense", 10 * bs + 77, None), ("sparse", (4 << 20) + 4096, [(0, 4 * bs), (2 << 20, (2 << 20) + 4 * bs), (4 << 20, (4 << 20) + 4096)])]
    shrink_jobs = []
    for (lname, size, data) in layouts:
        for driver in ("parfile", "parblock"):
            for cfr in (None, E["EXDEV"], E["ENOSYS"]):
                calls = ["copy_file_range", "lseek"] if cfr is None else ["pread64", "read", "lseek"]
                for sysn in calls:
                    for nth in ((1, 2, 3, 4, 5, 7) if not quick else (1, 2, 4, 5)):
                        for to in (0, 4 * bs, 4 * bs + 100):
                            if quick and rng.random() < 0.5:
                                continue
                            shrink_jobs.append((lname, size, data, driver, cfr, sysn, nth, to))

    def shrink(job, idx):
        (lname, size, data, driver, cfr, sysn, nth, to) = job
        d = os.path.join(d0, "sh%d" % idx)
        os.makedirs(d)
        src = os.path.join(d, "src.bin")
        fsutil.make_file(src, size, data if data is not None else [(0, size)], tag=idx + 1, sync=True)
        rules = [("trunc", to, 0, sysn, nth, "=" + src)]
        if cfr is not None:
            rules.append(("fail", cfr, 0, "copy_file_range", 0, "*"))
        argv = [ctx.bins["xcp"], "--driver", driver, "--block-size", str(bs), "-w", "2", "src.bin", "dst.bin"]
        r = xcp.run_supervised(sup, argv, d, d, rules=rules, tag="s", timeout_ms=20000)
        fired = any("trunc" in (e.get("inj") or "") for e in r.trace)
        res = dict(job=job, exit=r.exit, timeout=bool(r.meta.get("timeout")) or r.exit == 124, fired=fired, argv=argv[1:], rules=rules,
                   ncalls=len(r.trace))
        shutil.rmtree(d, ignore_errors=True)
        return res

    with concurrent.futures.ThreadPoolExecutor(max_workers=8) as ex:
        sres = list(ex.map(lambda t: shrink(t[1], t[0]), list(enumerate(shrink_jobs))))
    for res in sres:
        (lname, size, data, driver, cfr, sysn, nth, to) = res["job"]
        out.case(("shrink", lname, driver, cfr, sysn, nth, to), nontrivial=res["fired"])
        out.count("source_shrinks_mid_copy" + ("" if res["fired"] else "_rule_not_reached"))
        if res["timeout"]:
            out.violation("xcp spins when the source shrinks to %d bytes at its %s #%d (%s layout, %s, copy_file_range %s; %d calls "
                          "traced before the bound)" % (to, sysn, nth, lname, driver, "available" if cfr is None else "failing with %d" % cfr,
                                                       res["ncalls"]),
                          dict(argv=res["argv"], rules=res["rules"], layout=lname, size=size, data=data))
    shutil.rmtree(src_master, ignore_errors=True)
    shutil.rmtree(small, ignore_errors=True)
    out.sample(dict(plans=[p[0] for p in plans(nfiles)]))
    out.assumptions.append("termination of each system call, OS scheduler fairness, finitely many EINTR; crossbeam-channel and "
                           "blocking-threadpool behave as modelled in ConcFault.v (validated by these runs, not proved)")
