"""C09 — numbered backups never lose a version."""
import os
import re
import shutil
import subprocess

import core
import xcp

U64MAX = (1 << 64) - 1


def hexs(b):
    return b.hex() if b else "-"


BASES = [b"a", b"ab", b"file.txt", b".hidden", b"a.", b"x.~1~", b"f\xff.txt", b"\xc3\xa9t\xc3\xa9", b"a b", b"~",
         b"a..b", b"name\nnl", b"\xff\xfe", b"a.~2~.txt", b"A", b"file", b"file.tar.gz", b"..a", b"-n", b"1"]
NUMS = [b"1", b"2", b"007", b"0", b"10", b"123", b"999", b"18446744073709551615", b"18446744073709551614",
        b"18446744073709551616", b"99999999999999999999999", b"", b"1a", b"a1", b"-1", b"+1", b" 1", b"1 ",
        "１２".encode(), "١٢٣".encode(), b"1\n", b"1~2", b"1.5", b"0x10", b"\xff"]


def candidates_for(base, rng):
    out = []
    for n in NUMS:
        out.append(base + b".~" + n + b"~")
    n = rng.choice([b"1", b"3", b"42"])
    out += [base + b".~" + n, base + b"~" + n + b"~", base + b".~" + n + b"~~", base + b".~" + n + b"~.bak",
            base + b".~~" + n + b"~", base + b"..~" + n + b"~", base + b"b.~" + n + b"~", b"x" + base + b".~" + n + b"~",
            base[:-1] + b".~" + n + b"~", base, base + b".", base + b".~", b".~" + n + b"~", b"..", b".", base + b".~" + n + b"~x",
            base.upper() + b".~" + n + b"~", base + b" .~" + n + b"~", base + b".~" + n + b"~ "]
    for _ in range(6):
        k = rng.randrange(1, 8)
        out.append(bytes(rng.choice(b"ab.~~1290\xff\xc3\xa9 ") for _ in range(k)))
    return [c for c in out if c and b"/" not in c and b"\0" not in c]


def py_is_num_backup(base, cand):
    """independent statement of the property's notion: `<name>.~N~`, N a decimal u64"""
    m = re.match(rb"^" + re.escape(base) + rb"\.~([0-9]+)~$", cand, re.S)
    if not m or cand.endswith(b"\n") and not m.group(0) == cand:
        return None
    if m.group(0) != cand:
        return None
    v = int(m.group(1))
    return v if v <= U64MAX else None


def run_pairs(ctx, out):
    rng = ctx.rng
    quick = ctx.tier == "quick"
    pairs = []
    for b in BASES:
        for c in candidates_for(b, rng):
            pairs.append((b, c))
    # cross: candidates built for one base tested against another (prefix-related names)
    for _ in range(300 if quick else 20000):
        b1, b2 = rng.choice(BASES), rng.choice(BASES)
        pairs.append((b1, rng.choice(candidates_for(b2, rng))))
    pairs = list(dict.fromkeys(pairs))
    txt = "\n".join("%s %s" % (hexs(b), hexs(c)) for b, c in pairs) + "\n"
    r = subprocess.run([ctx.bins["probe"], "isnum"], input=txt, capture_output=True, text=True, timeout=600)
    impl = r.stdout.split("\n")[:len(pairs)]
    if len(impl) != len(pairs):
        raise core.BuildError("probe isnum output short: " + r.stderr[-300:])
    model = core.run_model("run_isnum", [[len(b)] + list(b) + list(c) for b, c in pairs], shard=250, tag="c09p") \
        if ctx.model_ok else [None] * len(pairs)
    for (b, c), line, mo in zip(pairs, impl, model):
        iv = None if line == "NONE" else int(line.split()[1]) if line.startswith("SOME") else "PANIC"
        exp = py_is_num_backup(b, c)
        out.case(("pair", b, c), nontrivial=(exp is not None) or c.startswith(b[:1]))
        out.count("pair_%s" % ("backup" if exp is not None else "not-backup"))
        if mo is not None:
            mv = mo[1] if mo[0] == 1 else None
            if mv != iv:
                out.corr("R0-is_num_backup", dict(base=repr(b), cand=repr(c)), mo, line)
        if iv != exp:
            out.violation("is_num_backup(%r, %r) = %s but %r %s a numbered backup of %r" % (
                b, c, line, c, "is" if exp is not None else "is not", b),
                dict(fn="is_num_backup", base=repr(b), cand=repr(c), impl=line, expected=exp))
    out.sample(dict(kind="name-pair", base=repr(pairs[5][0]), candidate=repr(pairs[5][1]), impl=impl[5]))


def run_scans(ctx, out):
    rng = ctx.rng
    quick = ctx.tier == "quick"
    d0 = ctx.work.fresh("c09scan")
    nd = 40 if quick else 600
    for k in range(nd):
        d = os.path.join(d0, "d%d" % k)
        os.mkdir(d)
        base = rng.choice(BASES)
        names = {base}
        style = rng.choice(["none", "few", "gaps", "large", "lookalike", "mixed"])
        if style in ("few", "mixed"):
            for n in rng.sample(range(1, 30), rng.randrange(1, 6)):
                names.add(base + b".~%d~" % n)
        if style in ("gaps", "mixed"):
            for n in (1, 2, 5, 100, 1000):
                if rng.random() < 0.6:
                    names.add(base + b".~%d~" % n)
        if style == "large":
            names.add(base + b".~%d~" % rng.choice([U64MAX - 1, 2 ** 63, 10 ** 18, U64MAX - 5]))
            names.add(base + b".~0003~")
        if style in ("lookalike", "mixed"):
            for c in rng.sample(candidates_for(base, rng), 8):
                if len(c) < 200:
                    names.add(c)
            names.add(base + b"b.~77~")
            names.add(b"z" + base + b".~88~")
        names = {n for n in names if n not in (b".", b"..")}
        for n in names:
            try:
                open(os.path.join(os.fsencode(d), n), "wb").close()
            except OSError:
                pass
        listing = sorted(os.listdir(os.fsencode(d)))
        r = subprocess.run([ctx.bins["probe"], "nextnum", d], input=hexs(base) + "\n", capture_output=True, text=True)
        line = r.stdout.strip()
        present = [v for v in (py_is_num_backup(base, c) for c in listing) if v is not None]
        out.case(("scan", base, tuple(listing)), nontrivial=len(present) > 0)
        out.count("scan_%s" % style)
        exp_next = max(present + [0]) + 1
        if ctx.model_ok:
            enc = [len(base)] + list(base)
            for c in listing:
                enc += [len(c)] + list(c)
            mo = core.run_model("run_nextnum", [enc], tag="c09s")[0]
            if line in ("PANIC", "ERR"):     # (the successor does not fit in a u64: an error since fix 381a1cc; a panic in debug builds before)
                if not (len(mo) == 2 and mo[1] == 0):
                    out.corr("R0-next_backup_num", dict(base=repr(base), listing=[repr(x) for x in listing]), mo, line)
            else:
                h, n, bn = line.split()
                if [int(h), int(n)] + list(bytes.fromhex(bn) if bn != "-" else b"") != mo:
                    out.corr("R0-next_backup_num", dict(base=repr(base), listing=[repr(x) for x in listing]), mo, line)
        if line in ("PANIC", "ERR"):
            if exp_next <= U64MAX:
                out.violation("next_backup_num %s" % line, dict(base=repr(base), listing=[repr(x) for x in listing]))
            continue
        h, n, bn = line.split()
        n = int(n)
        bname = bytes.fromhex(bn) if bn != "-" else b""
        if n <= max(present + [0]) or bname in listing or bool(int(h)) != (len(present) > 0):
            out.violation("backup number %d for %r is not above every existing number %s (or has_backup wrong / name exists)"
                          % (n, base, sorted(present)[-3:]),
                          dict(fn="next_backup_num", base=repr(base), listing=[repr(x) for x in listing], impl=line))
        shutil.rmtree(d, ignore_errors=True)


def dir_state(d):
    st = {}
    for n in os.listdir(os.fsencode(d)):
        p = os.path.join(os.fsencode(d), n)
        if os.path.isfile(p) and not os.path.islink(p):
            st[n] = open(p, "rb").read()
    return st


def check_step(out, base, mode, before, after, new_content, exitcode, rep):
    """the property for one overwrite step; returns True when ok"""
    if exitcode != 0:
        return True
    old = before.get(base)
    present = [v for v in (py_is_num_backup(base, c) for c in before) if v is not None]
    want_backup = old is not None and (mode == "numbered" or (mode == "auto" and present))
    # no existing entry other than base may change or vanish
    for n, c in before.items():
        if n != base and after.get(n) != c:
            out.violation("existing file %r was %s by a copy onto %r (backup=%s)" % (
                n, "removed" if n not in after else "modified", base, mode), rep)
            return False
    if after.get(base) != new_content:
        out.violation("destination %r does not hold the new content after exit 0" % base, rep)
        return False
    new = [n for n in after if n not in before]
    if want_backup:
        ok = [n for n in new if after[n] == old and (py_is_num_backup(base, n) or 0) > max(present + [0])]
        if len(ok) != 1 or len(new) != 1:
            out.violation("old version of %r not preserved as exactly one fresh %r.~N~ with N > %s: new files %r" % (
                base, base, max(present + [0]), new), rep)
            return False
    else:
        extra = [n for n in new if n != base]
        if extra:
            out.violation("backup made although mode %s did not call for one: %r" % (mode, extra), rep)
            return False
    return True


def run_histories(ctx, out):
    rng = ctx.rng
    quick = ctx.tier == "quick"
    sup = core.build_sup()
    d0 = ctx.work.fresh("c09hist")
    nh = 24 if quick else 400
    for k in range(nh):
        d = os.path.join(d0, "h%d" % k)
        srcd, dstd = os.path.join(d, "s"), os.path.join(d, "t")
        os.makedirs(srcd)
        os.makedirs(dstd)
        base = rng.choice(BASES)
        if base in (b"-n",):
            base = b"n-"
        driver = rng.choice(["parfile", "parblock"])
        # pre-existing backups / look-alikes
        pre = rng.choice(["none", "none", "gaps", "lookalike", "large"])
        if pre == "gaps":
            for n in (1, 3, 9):
                open(os.path.join(os.fsencode(dstd), base + b".~%d~" % n), "wb").write(b"pre%d" % n)
        if pre == "lookalike":
            open(os.path.join(os.fsencode(dstd), base + b"b.~7~"), "wb").write(b"other")
            open(os.path.join(os.fsencode(dstd), base + b".~x~"), "wb").write(b"other2")
        if pre == "large":
            open(os.path.join(os.fsencode(dstd), base + b".~%d~" % (10 ** 15)), "wb").write(b"big")
        steps = rng.randrange(2, 5 if quick else 7)
        hist = []
        for s in range(steps):
            mode = rng.choice(["numbered", "numbered", "auto", "none"])
            content = b"version %d of %r\n" % (s, base) * rng.randrange(1, 4)
            open(os.path.join(os.fsencode(srcd), base), "wb").write(content)
            before = dir_state(dstd)
            # copy the source DIRECTORY contents so that non-UTF-8 names are reachable (the CLI needs UTF-8 arguments)
            argv = [ctx.bins["xcp"], "-r", "-T", "--driver", driver, "-w", str(rng.choice([1, 2, 4])),
                    "--backup", mode, srcd, dstd]
            r = xcp.run_plain(argv, d)
            after = dir_state(dstd)
            hist.append(dict(mode=mode, exit=r.exit))
            rep = dict(kind="history", base=repr(base), driver=driver, pre=pre, steps=hist,
                       before=sorted(repr(x) for x in before), after=sorted(repr(x) for x in after), argv=argv,
                       stderr=r.stderr[-300:])
            out.case(("hist", base, driver, pre, k, s), nontrivial=base in before)
            out.count("hist_mode_" + mode)
            if r.exit != 0:
                out.violation("plain overwrite with --backup %s failed: exit %d" % (mode, r.exit), rep)
                break
            if not check_step(out, base, mode, before, after, content, r.exit, rep):
                break
            # model: predicted backup name
            if ctx.model_ok and base in before and mode != "none":
                listing = sorted(before)
                enc = [len(base)] + list(base)
                for c in listing:
                    enc += [len(c)] + list(c)
                mo = core.run_model("run_nextnum", [enc], tag="c09h")[0]
                has, nxt, bname = mo[0], mo[1], bytes(mo[2:])
                made = [n for n in after if n not in before]
                exp_made = [bname] if (mode == "numbered" or has) else []
                if sorted(made) != sorted(exp_made):
                    out.corr("R1-history-step", rep, [repr(x) for x in exp_made], [repr(x) for x in made])
        out.sample(dict(kind="history", base=repr(base), driver=driver, pre=pre, steps=hist), limit=8)
        shutil.rmtree(d, ignore_errors=True)

    # ---- ONE run over several sources, some of which are themselves NAMED like numbered backups (an editor's f.~1~, a tree
    #      that was once a backup target): the number for each overwrite must exceed every number present AT THAT MOMENT,
    #      including files this very run has just copied in — nothing read earlier may be reused
    nm = 10 if quick else 120
    for k in range(nm):
        d = os.path.join(d0, "multi%d" % k)
        srcd, dstd = os.path.join(d, "s"), os.path.join(d, "t")
        os.makedirs(srcd)
        os.makedirs(dstd)
        driver = rng.choice(["parfile", "parblock"])
        # the operations of one run are applied one after the other here (one parfile worker; parblock's single dispatcher):
        # the property quantifies over histories, not over races between two workers naming a backup and creating that name
        w = 1 if driver == "parfile" else rng.choice([1, 2, 4])
        names = ["a", "f", "g"]
        for nme in names:
            open(os.path.join(dstd, nme), "wb").write(b"old %s\n" % nme.encode())
        srcs = {}
        for nme in names:
            srcs[nme] = b"new %s\n" % nme.encode() * 3
        for base in rng.sample(["f", "g", "a"], rng.choice([1, 2])):
            for n in rng.sample([1, 2, 3], rng.choice([1, 2])):
                srcs["%s.~%d~" % (base, n)] = b"editor backup %d of %s\n" % (n, base.encode())
        for nme, c in srcs.items():
            open(os.path.join(srcd, nme), "wb").write(c)
        order = sorted(srcs)
        rng.shuffle(order)
        if rng.random() < 0.5:
            order = ["a"] + [x for x in order if x != "a"]           # an unrelated overwrite first
        form = rng.choice(["args", "args", "tree"])
        before = dir_state(dstd)
        if form == "args":
            argv = [ctx.bins["xcp"], "--driver", driver, "-w", str(w), "--backup", "numbered"] + [os.path.join("s", x) for x in order] + ["t"]
        else:
            argv = [ctx.bins["xcp"], "-r", "-T", "--driver", driver, "-w", str(w), "--backup", "numbered", "s", "t"]
        r = xcp.run_plain(argv, d)
        after = dir_state(dstd)
        rep = dict(kind="several-sources-with-backup-like-names", argv=argv, order=order, driver=driver, workers=w, exit=r.exit,
                   before=sorted(repr(x) for x in before), after={repr(x): after[x][:40].decode("latin-1") for x in sorted(after)}, stderr=r.stderr[-300:])
        out.case(("multi", k, driver, w, form, tuple(order)), nontrivial=True)
        out.count("multi_source_backup_names")
        if r.exit == 0:
            problem = None
            # every source arrived under its own name
            for nme, c in srcs.items():
                if after.get(os.fsencode(nme)) != c:
                    problem = "%s does not hold what was copied to it (it holds %r)" % (nme, (after.get(os.fsencode(nme)) or b"<missing>")[:30])
                    break
            # every old version survives under SOME name of the directory (a backup, or — when a copied-in f.~N~ later
            # displaced it — the backup of that backup): no version is lost; all contents here are distinct
            if not problem:
                held = list(after.values())
                for nme in names:
                    old = before[os.fsencode(nme)]
                    if held.count(old) != 1:
                        problem = "the old version of %s survives %d times" % (nme, held.count(old))
                        break
            if problem:
                out.violation("one run over sources with backup-like names: " + problem, rep)
        shutil.rmtree(d, ignore_errors=True)

    # ---- the destination entry is a symbolic LINK to a regular file that lives in another directory, and numbered backups
    #      of that name already sit next to the link: the entry that is replaced is the link (it is what gets renamed to
    #      <name>.~N~, keeping the old version reachable), N is chosen among the backups NEXT TO THE LINK, none of which changes
    def lstate(dd):
        st = {}
        for n in os.listdir(dd):
            p_ = os.path.join(dd, n)
            st[n] = ("link", os.readlink(p_)) if os.path.islink(p_) else ("file", open(p_, "rb").read())
        return st
    for k in range(6 if quick else 40):
        d = os.path.join(d0, "lnk%d" % k)
        os.makedirs(os.path.join(d, "s"))
        os.makedirs(os.path.join(d, "t"))
        os.makedirs(os.path.join(d, "store"))
        driver = ["parfile", "parblock"][k % 2]
        open(os.path.join(d, "store", "f.txt"), "wb").write(b"generation 0\n")
        os.symlink(rng.choice(["../store/f.txt", os.path.join(d, "store", "f.txt")]), os.path.join(d, "t", "f.txt"))
        pre = rng.choice([[1], [1, 3], [2, 7], []])
        for n in pre:
            open(os.path.join(d, "t", "f.txt.~%d~" % n), "wb").write(b"kept backup %d\n" % n)
        if rng.random() < 0.5:
            open(os.path.join(d, "store", "f.txt.~9~"), "wb").write(b"a backup in the OTHER directory\n")
        hist = []
        for step in (1, 2):
            mode = rng.choice(["numbered", "numbered", "auto"])
            content = b"generation %d\n" % step * 5
            open(os.path.join(d, "s", "f.txt"), "wb").write(content)
            before_t, before_store = lstate(os.path.join(d, "t")), lstate(os.path.join(d, "store"))
            argv = [ctx.bins["xcp"], "--driver", driver, "-w", "2", "--backup", mode, os.path.join("s", "f.txt"), os.path.join("t", "f.txt")]
            r = xcp.run_plain(argv, d)
            after_t, after_store = lstate(os.path.join(d, "t")), lstate(os.path.join(d, "store"))
            hist.append(dict(mode=mode, exit=r.exit))
            rep = dict(kind="destination-is-a-link", argv=argv, steps=hist, before=sorted(before_t), after=sorted(after_t),
                       exit=r.exit, stderr=r.stderr[-300:])
            out.case(("hist-link", driver, k, step, mode), nontrivial=True)
            out.count("hist_destination_link")
            if r.exit != 0:
                break
            nums_before = [int(n[len("f.txt.~"):-1]) for n in before_t if n.startswith("f.txt.~") and n.endswith("~") and n[len("f.txt.~"):-1].isdigit()]
            expect_backup = (mode == "numbered") or bool(nums_before)
            problem = None
            for n, v in before_t.items():
                if n != "f.txt" and after_t.get(n) != v:
                    problem = "existing entry %s next to the link was %s" % (n, "removed" if n not in after_t else "replaced")
            if not problem and expect_backup:
                new = [n for n in after_t if n not in before_t]
                okn = [n for n in new if n.startswith("f.txt.~") and after_t[n] == before_t["f.txt"]]
                if len(new) != 1 or len(okn) != 1 or int(okn[0][len("f.txt.~"):-1]) <= max(nums_before + [0]):
                    problem = "the old entry was not preserved as one fresh f.txt.~N~ with N > %d: new entries %r" % (max(nums_before + [0]), new)
            if not problem and expect_backup and after_store != before_store:
                problem = "the other directory changed although the entry was backed up first"
            if not problem and expect_backup and after_t.get("f.txt") != ("file", content):
                problem = "t/f.txt does not hold the new content"
            if problem:
                out.violation("overwrite of a destination that is a link, with backups beside it: " + problem, rep)
                break
        shutil.rmtree(d, ignore_errors=True)

    # ---- the destination cannot be opened for writing (it is a program being executed: ETXTBSY, which also stops root):
    #      a numbered / auto overwrite renames it away first, so the history still holds; -f / --force must not change that
    import subprocess
    sleepbin = shutil.which("sleep")
    nb = (4 if quick else 24) if sleepbin else 0
    for k in range(nb):
        d = os.path.join(d0, "busy%d" % k)
        srcd, dstd = os.path.join(d, "s"), os.path.join(d, "t")
        os.makedirs(srcd)
        os.makedirs(dstd)
        base = b"prog"
        driver = ["parfile", "parblock"][k % 2]
        force = [[], ["-f"], ["--force"], ["--force", "-v"]][(k // 2) % 4] if k >= 2 else ["--force"]
        form = rng.choice(["tree", "file"])
        elf = open(sleepbin, "rb").read()
        version = lambda i: elf + b"\n#version %d\n" % i
        open(os.path.join(dstd, "prog"), "wb").write(version(0))
        os.chmod(os.path.join(dstd, "prog"), 0o755)
        if rng.random() < 0.5:
            open(os.path.join(dstd, "prog.~4~"), "wb").write(b"an older backup")
        hist = []
        for s_i in range(1, 4):
            mode = rng.choice(["numbered", "numbered", "auto"])
            content = version(s_i)
            open(os.path.join(srcd, "prog"), "wb").write(content)
            os.chmod(os.path.join(srcd, "prog"), 0o755)
            before = dir_state(dstd)
            proc = subprocess.Popen([os.path.join(dstd, "prog"), "30"], stdout=subprocess.DEVNULL, stderr=subprocess.DEVNULL)
            try:
                if form == "tree":
                    argv = [ctx.bins["xcp"], "-r", "-T", "--driver", driver, "-w", "2", "--backup", mode] + force + [srcd, dstd]
                else:
                    argv = [ctx.bins["xcp"], "--driver", driver, "-w", "2", "--backup", mode] + force + [os.path.join(srcd, "prog"), os.path.join(dstd, "prog")]
                r = xcp.run_plain(argv, d)
            finally:
                proc.kill()
                proc.wait()
            after = dir_state(dstd)
            hist.append(dict(mode=mode, exit=r.exit))
            rep = dict(kind="history-busy-destination", driver=driver, steps=hist, argv=argv, before=sorted(repr(x) for x in before),
                       after=sorted(repr(x) for x in after), stderr=r.stderr[-300:],
                       note="the destination file is being executed while it is overwritten (open for writing fails with ETXTBSY)")
            out.case(("hist-busy", driver, tuple(force), form, k, s_i), nontrivial=True)
            out.count("hist_busy_destination")
            if r.exit != 0:
                # without a backup to make (auto, none present) the create fails: a refusal, nothing to check but the frame
                if dir_state(dstd) != before:
                    out.violation("a refused overwrite of a busy destination changed the directory", rep)
                break
            if not check_step(out, base, mode, before, after, content, r.exit, rep):
                break
        shutil.rmtree(d, ignore_errors=True)

    # ---- kill points during one overwrite (-w 1: deterministic call order) ----
    nk = 3 if quick else 12
    for k in range(nk):
        base = [b"file.txt", b"f\xff.txt", b"a"][k % 3]
        driver = ["parfile", "parblock"][k % 2]
        d = os.path.join(d0, "k%d" % k)

        def setup():
            shutil.rmtree(d, ignore_errors=True)
            os.makedirs(os.path.join(d, "s"))
            os.makedirs(os.path.join(d, "t"))
            open(os.path.join(os.fsencode(d), b"s", base), "wb").write(b"NEW-CONTENT" * 500)
            open(os.path.join(os.fsencode(d), b"t", base), "wb").write(b"OLD-CONTENT" * 300)
            open(os.path.join(os.fsencode(d), b"t", base + b".~4~"), "wb").write(b"older")
        setup()
        argv = [ctx.bins["xcp"], "-r", "-T", "--driver", driver, "-w", "1", "--backup", "numbered",
                os.path.join(d, "s"), os.path.join(d, "t")]
        ref = xcp.run_supervised(sup, argv, d, d, tag="ref")
        muts = [e for e in ref.trace if xcp.is_mutating(e) and "/.sup" not in e["p1"]]
        seen = {}
        points = []
        for e in muts:
            key = (e["sys"], e["p1"])
            seen[key] = seen.get(key, 0) + 1
            points.append((e["sys"], e["p1"], seen[key]))
        for (sysn, path, nth) in points:
            for act in ("kill", "killafter"):
                setup()
                r = xcp.run_supervised(sup, argv, d, d, rules=[(act, 0, 0, sysn, nth, "=" + path)], tag="k")
                st = dir_state(os.path.join(d, "t"))
                out.case(("kill", base, driver, sysn, path[len(d):], nth, act), nontrivial=True)
                out.count("kill_points")
                old_ok = st.get(base) == b"OLD-CONTENT" * 300 or st.get(base + b".~5~") == b"OLD-CONTENT" * 300
                older_ok = st.get(base + b".~4~") == b"older"
                if not (old_ok and older_ok):
                    out.violation("killed %s %s #%d of %s: the old content of %r is neither under the original nor the backup "
                                  "name (or an existing backup changed)" % (act, sysn, nth, path[len(d):], base),
                                  dict(kind="kill", base=repr(base), driver=driver, point=(act, sysn, path, nth), argv=argv,
                                       files=sorted(repr(x) for x in st)))
        # ---- one injected errno at every call of the overwrite (mutating or not): whatever fails, the old version must
        # survive under the original or the backup name, no existing backup may change, and exit 0 means the full property
        calls = [e for e in ref.trace if "/.sup" not in e["p1"] and e["sys"] not in ("close", "exit_group", "clone3", "clone", "umask")]
        seen = {}
        fpoints = []
        for e in calls:
            key = (e["sys"], e["p1"])
            seen[key] = seen.get(key, 0) + 1
            fpoints.append((e["sys"], e["p1"], seen[key]))
        for i, (sysn, path, nth) in enumerate(fpoints):
            errnos = [5, 28, 13] if sysn.startswith("rename") else [[5, 28, 13, 24, 30, 1][i % 6]]
            if sysn.startswith("rename"):
                errnos.append(36)      # ENAMETOOLONG
            for errno in errnos:
                setup()
                before = dir_state(os.path.join(d, "t"))
                r = xcp.run_supervised(sup, argv, d, d, rules=[("fail", errno, 0, sysn, nth, "=" + path)], tag="f", timeout_ms=20000)
                st = dir_state(os.path.join(d, "t"))
                out.case(("fault", base, driver, sysn, path[len(d):], nth, errno), nontrivial=True)
                out.count("fault_points")
                old_ok = st.get(base) == b"OLD-CONTENT" * 300 or st.get(base + b".~5~") == b"OLD-CONTENT" * 300
                older_ok = st.get(base + b".~4~") == b"older"
                rep = dict(kind="fault", base=repr(base), driver=driver, point=(sysn, path, nth, errno), argv=argv, exit=r.exit,
                           files=sorted(repr(x) for x in st))
                if not (old_ok and older_ok):
                    out.violation("errno %d injected at %s #%d of %s (exit %d): the old content of %r is neither under the original "
                                  "nor the backup name (or an existing backup changed)" % (errno, sysn, nth, path[len(d):], r.exit, base), rep)
                elif r.exit == 0:
                    check_step(out, base, "numbered", before, st, b"NEW-CONTENT" * 500, 0, rep)
        shutil.rmtree(d, ignore_errors=True)
    # ---- a name so long that <name>.~N~ does not fit: the overwrite must be refused with the old file intact
    for driver in ("parfile", "parblock"):
        for (ln, prebak) in ((252, None), (250, 99), (255, None)):
            d = os.path.join(d0, "long_%s_%d" % (driver, ln))
            os.makedirs(os.path.join(d, "s"))
            os.makedirs(os.path.join(d, "t"))
            base = b"L" * ln
            open(os.path.join(os.fsencode(d), b"s", base), "wb").write(b"NEW")
            open(os.path.join(os.fsencode(d), b"t", base), "wb").write(b"OLD-LONG")
            if prebak:
                open(os.path.join(os.fsencode(d), b"t", base + b".~%d~" % prebak), "wb").write(b"older")
            before = dir_state(os.path.join(d, "t"))
            argv = [ctx.bins["xcp"], "-r", "-T", "--driver", driver, "-w", "2", "--backup", "numbered", os.path.join(d, "s"), os.path.join(d, "t")]
            r = xcp.run_plain(argv, d)
            after = dir_state(os.path.join(d, "t"))
            out.case(("longname", driver, ln, prebak), True)
            out.count("long_names")
            rep = dict(kind="long-name", length=ln, driver=driver, argv=argv, exit=r.exit, stderr=r.stderr[-200:])
            if b"OLD-LONG" not in after.values():
                out.violation("a %d-byte name whose backup name does not fit: the old version was lost (exit %d)" % (ln, r.exit), rep)
            for n, c in before.items():
                if n != base and after.get(n) != c:
                    out.violation("existing backup changed while overwriting a %d-byte name" % ln, rep)
            shutil.rmtree(d, ignore_errors=True)
    # ---- backup numbers at the edge of u64: a directory that already holds <name>.~18446744073709551615~ (and ...614, ...616 = one
    #      more digit than fits): whatever number is chosen next, no version the directory holds may be replaced
    rel_xcp = core.build_rust_release()      # (overflow wraps in a release build and panics in a debug build: both are run)
    for (build, binary) in (("debug", ctx.bins["xcp"]), ("release", rel_xcp)):
      for driver in ("parfile", "parblock"):
        for mode in ("numbered", "auto"):
            for top in (18446744073709551615, 18446744073709551614, 18446744073709551616, 9223372036854775807):
                d = os.path.join(d0, "maxnum_%s_%s_%s_%d" % (build, driver, mode, top % 1000))
                os.makedirs(os.path.join(d, "t"))
                open(os.path.join(d, "t", "f.~0~"), "wb").write(b"backup zero")
                open(os.path.join(d, "f"), "wb").write(b"NEW VERSION")
                open(os.path.join(d, "t", "f"), "wb").write(b"CURRENT VERSION")
                open(os.path.join(d, "t", "f.~%d~" % top), "wb").write(b"OLDEST VERSION (backup %d)" % top)
                open(os.path.join(d, "t", "f.~3~"), "wb").write(b"backup three")
                before = dir_state(os.path.join(d, "t"))
                argv = [binary, "--driver", driver, "-w", "2", "--backup", mode, "f", "t/"]
                r = xcp.run_plain(argv, d)
                after = dir_state(os.path.join(d, "t"))
                out.case(("max-backup-number", build, driver, mode, top), True)
                out.count("backup_numbers_at_the_edge_of_u64")
                rep = dict(kind="a backup numbered %d exists (%s build)" % (top, build), argv=argv[1:], exit=r.exit, stderr=r.stderr[-200:],
                           before=sorted(os.fsdecode(n) for n in before), after=sorted(os.fsdecode(n) for n in after))
                lost = [c for c in before.values() if c not in after.values()]
                if lost:
                    out.violation("overwrite with --backup %s next to a backup numbered %d (%s build): a version the directory held is gone (%r), exit %d"
                                  % (mode, top, build, lost[0][:40], r.exit), rep)
                shutil.rmtree(d, ignore_errors=True)
    # ---- HISTORIES over names at the limit (251..255 bytes; two names sharing their first 251 bytes): after every step, every
    #      version the destination held before is still there (under some name) or the step was refused and changed nothing
    for driver in ("parfile", "parblock"):
        for mode in ("numbered", "auto"):
            d = os.path.join(d0, "longhist_%s_%s" % (driver, mode))
            os.makedirs(os.path.join(d, "s"))
            os.makedirs(os.path.join(d, "t"))
            names = [b"a" * 251, b"b" * 252, b"c" * 255, b"p" * 251 + b"XY", b"p" * 251 + b"ZW", b"short"]
            held = set()
            for step in range(4):
                for i, nme in enumerate(names):
                    open(os.path.join(os.fsencode(d), b"s", nme), "wb").write(b"version %d of file %d" % (step, i))
                before = dir_state(os.path.join(d, "t"))
                held |= set(before.values())
                argv = [ctx.bins["xcp"], "-r", "-T", "--driver", driver, "-w", str(rng.choice([1, 2, 4])), "--backup", mode, os.path.join(d, "s"), os.path.join(d, "t")]
                r = xcp.run_plain(argv, d)
                after = dir_state(os.path.join(d, "t"))
                out.case(("long-name-history", driver, mode, step), step > 0)
                out.count("long_name_history_steps")
                rep = dict(kind="history over names of 251-255 bytes", step=step, mode=mode, driver=driver, argv=argv, exit=r.exit, stderr=r.stderr[-200:])
                lost = [c for c in held if c not in after.values()]
                if lost and mode == "numbered":
                    out.violation("step %d of a history with --backup numbered over names of 251-255 bytes: %d earlier version(s) are gone (%r ...), exit %d"
                                  % (step, len(lost), sorted(lost)[0][:40], r.exit), rep)
                    break
                if mode == "auto":
                    # auto backs up only files that already have a numbered backup: nothing the directory held as a BACKUP may vanish
                    baks = {n: c for n, c in before.items() if b".~" in n}
                    gone = [n for n, c in baks.items() if c not in after.values()]
                    if gone:
                        out.violation("step %d with --backup auto over long names: the content of existing backup %r is gone" % (step, gone[0][:30]), rep)
                        break
            shutil.rmtree(d, ignore_errors=True)


def run(ctx, out):
    out.rule = ("(a) is_num_backup on generated (name, candidate) byte-string pairs: prefix-related, look-alike, hidden, "
                "trailing-dot, non-UTF-8, huge/overflowing/zero-padded/non-ASCII-digit numbers; (b) next_backup_num/has_backup "
                "on real directories with gaps, large numbers, look-alikes; (c) histories of 2-6 real xcp copies with changing "
                "content and mode none/auto/numbered, names reached through a directory copy so non-UTF-8 names occur; (c') histories "
                "in ONE run over several sources some of which are named like numbered backups (f.~1~ copied in, then f overwritten); (c'') histories "
                "whose destination entry is a LINK to a file elsewhere with backups beside the link; histories "
                "whose destination is a program BEING EXECUTED (cannot be opened for writing), with and without -f/--force; "
                "overwrites next to backups numbered 2^64-1, 2^64-2, 2^64 and 2^63-1 with the debug AND the release build (overflow wraps there); histories of four copies over names of 251-255 bytes (two sharing their first 251 bytes); (d) SIGKILL before/after every mutating call of one overwrite. non-trivial = candidate is a real backup or "
                "shares the first byte / directory holds a backup / step overwrites an existing file; distinct by input")
    run_pairs(ctx, out)
    run_scans(ctx, out)
    run_histories(ctx, out)
    import destmatrix
    destmatrix.run(ctx, out, "C09", opts=["backup"], sources=["file"])
