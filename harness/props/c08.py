"""C08 — --no-clobber never alters anything that already exists in the destination."""
import os
import shutil

import core
import treecase
import trees
import xcp


def run(ctx, out):
    rng = ctx.rng
    quick = ctx.tier == "quick"
    sup = core.build_sup()
    out.rule = ("generated source trees copied with -n into destinations pre-populated with colliding entries (regular files, "
                "directories, FIFOs, live and dangling symlinks) at the first / a middle / the last entry of the walk order and "
                "at any depth, or with no collision; both drivers, workers 1-4, random thread holds so workers are active when the "
                "walker meets the collision; every pre-existing destination entry is compared before/after (kind, bytes, mode, owner, xattrs, mtime); plus operands whose names are prefixes of one another (data / data.old, lib / lib64), source links whose text designates an existing, "
                "unmapped destination entry under --ownership / --fsync / --no-perms / --no-timestamps; non-trivial = at "
                "least one collision; distinct = (tree, collisions, driver)")
    d0 = ctx.work.fresh("c08")
    n = 50 if quick else 1200
    batch = []
    for k in range(n):
        d = os.path.join(d0, "c%d" % k)
        os.makedirs(d)
        sizes = trees.SizeAlloc(rng)
        tree = trees.gen_dir(rng, rng.choice([1, 2, 3]), rng.choice([3, 5]), sizes, links=0.15, specials=0.08, empty_dirs=0.0)
        src = os.path.join(d, "src")
        trees.materialise(tree, os.fsencode(src))
        dst = os.path.join(d, "dst")
        os.mkdir(dst)
        tbase = os.path.join(os.fsencode(dst), b"src")
        _, entries = treecase.scan(os.fsencode(src), False)
        # choose collisions
        style = rng.choice(["none", "first", "middle", "last", "several", "root"])
        directed = None
        if k < 40:
            # directed: every collision kind at every entry type
            ckinds = ["file", "dir", "fifo", "dangling", "livelink"]
            etypes = ["file", "dir", "link", "file"]
            directed = (ckinds[k % 5], etypes[(k // 5) % 4])
            style = "directed"
        idx = []
        nonroot = [i for i, e in enumerate(entries) if e[0]]
        if nonroot:
            if style == "first":
                idx = [nonroot[0]]
            elif style == "middle":
                idx = [nonroot[len(nonroot) // 2]]
            elif style == "last":
                idx = [nonroot[-1]]
            elif style == "several":
                idx = rng.sample(nonroot, min(len(nonroot), 3))
        if style == "root":
            idx = [0]
        if directed:
            cand = [i for i in nonroot if entries[i][1] == directed[1]]
            idx = [cand[0]] if cand else (nonroot[:1])
        for i in sorted(idx):
            rel = entries[i][0]
            tp = treecase.rust_join(tbase, rel)
            try:
                os.makedirs(os.path.dirname(tp), exist_ok=True)
            except OSError:
                continue          # an ancestor is already occupied by an earlier (non-directory) collision
            if os.path.lexists(tp):
                continue
            kind = directed[0] if directed else rng.choice(["file", "dir", "fifo", "dangling", "livelink"])
            if kind == "file":
                open(tp, "wb").write(b"PRE-EXISTING " * 5)
                os.chmod(tp, 0o640)
            elif kind == "dir":
                os.mkdir(tp)
            elif kind == "fifo":
                os.mkfifo(tp)
            elif kind == "dangling":
                os.symlink(os.path.join(os.fsencode(d), b"outside-target"), tp)
            else:
                open(os.path.join(os.fsencode(d), b"live-target"), "wb").write(b"live")
                os.symlink(os.path.join(os.fsencode(d), b"live-target"), tp)
        collisions = [e[0] for e in entries if os.path.lexists(treecase.rust_join(tbase, e[0]))]
        before = xcp.snapshot(os.fsencode(d))
        pre_dst = {p: e for p, e in before.items() if p.startswith(b"dst")}
        driver = rng.choice(["parfile", "parblock"])
        # -n combined with the backup modes: a collision must still change nothing (no rename to <name>.~N~ either)
        extra = rng.choice([[], [], ["--backup", "numbered"], ["--backup", "auto"], ["--backup", "numbered", "--fsync"]])
        if extra[:2] == ["--backup", "auto"]:
            for c in collisions:
                tp = treecase.rust_join(tbase, c)
                if os.path.isfile(tp) and not os.path.islink(tp):
                    open(tp + b".~3~", "wb").write(b"older backup")
            before = xcp.snapshot(os.fsencode(d))
            pre_dst = {p: e for p, e in before.items() if p.startswith(b"dst")}
        out.count("with_" + ("_".join(x.strip("-") for x in extra) or "plain"))
        # options that must not matter: verbosity, -f, --no-progress (= one block per file), -w 0, block size, one usable CPU
        nflags, nw, ncpus = xcp.neutral(rng, force=False)   # -f and -n exclude each other
        if "--no-progress" not in nflags and rng.random() < 0.3:
            nflags += ["--block-size", rng.choice(["1", "4096", "2GB", "64MB"])]
        for f in nflags:
            out.count("neutral_" + f.strip("-") if f.startswith("-") else "neutral_block_size_value")
        argv = [ctx.bins["xcp"], "-r", "-n", "--driver", driver, "-w", nw or str(rng.choice([1, 2, 4]))] + nflags + extra + [src, dst]
        r = xcp.run_supervised(sup, argv, d, d, tag="n", seed=rng.randrange(1 << 30), hold_permille=rng.choice([0, 150, 400]),
                               hold_maxms=3, timeout_ms=30000, cpus=ncpus)
        after = xcp.snapshot(os.fsencode(d))
        rep = dict(tree=trees.describe(tree), collisions=[repr(b"/".join(c)) for c in collisions], style=style, driver=driver,
                   argv=argv[1:], exit=r.exit, stderr=r.stderr[-300:])
        out.case(("nc", k, style, driver, len(collisions)), nontrivial=len(collisions) > 0)
        out.count("collision_" + style)
        if r.meta.get("timeout"):
            out.violation("xcp -n did not terminate", rep)
            continue
        # every pre-existing destination entry unchanged (directories may gain children)
        bad = None
        for p, e in pre_dst.items():
            a = after.get(p)
            if a is None:
                bad = "%r was removed" % p
                break
            keys = ("kind", "mode", "uid", "gid", "size", "sha", "link", "rdev", "xattr") + (("mtime_ns",) if e["kind"] == "file" else ())
            if any(e.get(x) != a.get(x) for x in keys):
                bad = "%r was altered (%s -> %s)" % (p, {x: e.get(x) for x in keys if e.get(x) != a.get(x)},
                                                     {x: a.get(x) for x in keys if e.get(x) != a.get(x)})
                break
        for extra in (b"outside-target",):
            if extra in after and extra not in before:
                bad = "a file was created through a dangling symlink outside the destination"
        if bad:
            out.violation("--no-clobber: " + bad, rep)
        elif collisions and r.exit == 0:
            out.violation("--no-clobber: a source entry maps onto an existing destination entry but exit was 0", rep)
        elif not collisions and r.exit != 0:
            out.corr("R1-noclobber-no-collision-failed", rep, "exit 0", r.exit)
        tenc, _ = treecase.scan(os.fsencode(src), False)
        batch.append((rep, collisions, tenc))
        out.sample(dict(style=style, collisions=len(collisions), driver=driver, exit=r.exit), limit=6)
        shutil.rmtree(d, ignore_errors=True)
    # several top-level sources into an existing directory: collisions of every kind at dst/<name>
    # (a collision below an existing directory is always preceded by the refusal of that directory)
    ckinds = ["file", "dir", "fifo", "dangling", "livelink"]
    skinds = ["file", "link", "fifo", "dir", "file0"]
    nmulti = 50 if quick else 600
    for k in range(nmulti):
        d = os.path.join(d0, "m%d" % k)
        os.makedirs(os.path.join(d, "dst"))
        names = ["s%d" % i for i in range(rng.randrange(1, 5))]
        colpos = k % len(names)
        ck, sk = ckinds[k % 5], skinds[(k // 5) % 5]
        for i, nme in enumerate(names):
            p = os.path.join(d, nme)
            kind = sk if i == colpos else rng.choice(skinds)
            if kind == "file":
                open(p, "wb").write(b"source %d " % i * 20)
            elif kind == "file0":
                open(p, "wb").close()
            elif kind == "link":
                open(os.path.join(d, "link-target"), "wb").write(b"lt")
                os.symlink("link-target", p)
            elif kind == "fifo":
                os.mkfifo(p)
            else:
                os.mkdir(p)
                open(os.path.join(p, "inner"), "wb").write(b"inner")
        collide = rng.random() < 0.85
        tp = os.path.join(d, "dst", names[colpos])
        if collide:
            if ck == "file":
                open(tp, "wb").write(b"PRE-EXISTING")
            elif ck == "dir":
                os.mkdir(tp)
            elif ck == "fifo":
                os.mkfifo(tp)
            elif ck == "dangling":
                os.symlink(os.path.join(d, "outside-target"), tp)
            else:
                open(os.path.join(d, "live-target"), "wb").write(b"live")
                os.symlink(os.path.join(d, "live-target"), tp)
        before = xcp.snapshot(os.fsencode(d))
        driver = ["parfile", "parblock"][k % 2]
        nflags, nw, ncpus = xcp.neutral(rng, force=False)   # -f and -n exclude each other
        argv = [ctx.bins["xcp"], "-r", "-n", "--driver", driver, "-w", nw or str(rng.choice([1, 2, 4]))] + nflags + \
            [os.path.join(d, x) for x in names] + [os.path.join(d, "dst")]
        r = xcp.run_supervised(sup, argv, d, d, tag="n", seed=rng.randrange(1 << 30), hold_permille=rng.choice([0, 200]),
                               hold_maxms=3, timeout_ms=30000)
        after = xcp.snapshot(os.fsencode(d))
        rep = dict(kind="multi-source", sources=names, collision=(ck if collide else None, sk, names[colpos]), driver=driver,
                   argv=argv[1:], exit=r.exit, stderr=r.stderr[-300:])
        out.case(("ncm", k, ck, sk, collide, driver), nontrivial=collide)
        out.count("multi_%s_on_%s" % (sk, ck if collide else "nothing"))
        bad = None
        for p, e in before.items():
            if not p.startswith(b"dst/") and p not in (b"live-target", b"link-target"):
                continue
            a = after.get(p)
            keys = ("kind", "mode", "size", "sha", "link", "rdev") + (("mtime_ns",) if e["kind"] == "file" else ())
            if a is None or any(e.get(x) != a.get(x) for x in keys):
                bad = "%r was %s" % (p, "removed" if a is None else "altered")
                break
        if b"outside-target" in after and b"outside-target" not in before:
            bad = "a file was created through a dangling symlink (outside the destination)"
        if bad:
            out.violation("--no-clobber: " + bad, rep)
        elif collide and r.exit == 0:
            out.violation("--no-clobber: a source maps onto an existing destination entry but exit was 0", rep)
        elif not collide and r.exit != 0:
            out.corr("R1-noclobber-no-collision-failed", rep, "exit 0", r.exit)
        shutil.rmtree(d, ignore_errors=True)

    # single-file sources: -n with -T / --target-directory / backup modes / -L, onto every kind of existing entry
    for driver in ("parfile", "parblock"):
        for flags in ([], ["-T"], ["--backup", "numbered"], ["--backup", "auto"], ["-T", "--backup", "numbered"], ["-L"], ["-L", "-T"]):
            for dkind in ("file", "livelink", "dangling", "fifo", "emptyfile"):
                d = os.path.join(d0, "sf_%s_%s_%s" % (driver, "".join(f.strip("-")[:2] for f in flags), dkind))
                os.makedirs(os.path.join(d, "dd"))
                open(os.path.join(d, "src.bin"), "wb").write(b"new data " * 300)
                os.symlink("src.bin", os.path.join(d, "srclink"))
                tp = os.path.join(d, "dd", "target")
                if dkind == "file":
                    open(tp, "wb").write(b"PRE-EXISTING")
                elif dkind == "emptyfile":
                    open(tp, "wb").close()
                elif dkind == "livelink":
                    open(os.path.join(d, "live-target"), "wb").write(b"live")
                    os.symlink(os.path.join(d, "live-target"), tp)
                elif dkind == "dangling":
                    os.symlink(os.path.join(d, "outside-target"), tp)
                else:
                    os.mkfifo(tp)
                if "auto" in flags and dkind in ("file", "emptyfile"):
                    open(tp + ".~2~", "wb").write(b"older")
                srcarg = "srclink" if "-L" in flags else "src.bin"
                before = xcp.snapshot(os.fsencode(d))
                argv = [ctx.bins["xcp"], "-n", "--driver", driver, "-w", "2"] + flags + [srcarg, "dd/target"]
                r = xcp.run_supervised(sup, argv, d, d, tag="sf", timeout_ms=30000)
                after = xcp.snapshot(os.fsencode(d))
                out.case(("single", driver, tuple(flags), dkind), True)
                out.count("single_file_source")
                rep = dict(kind="single-file", argv=argv[1:], existing=dkind, exit=r.exit, stderr=r.stderr[-200:])
                diff = [x for x in xcp.snap_diff(before, after, ignore=("ino", "nlink")) if not x[0].startswith(b".sup")]
                if diff:
                    out.violation("--no-clobber %s onto an existing %s: %r was changed (exit %d)" % (" ".join(flags), dkind, diff[0][0], r.exit), rep)
                elif r.exit == 0:
                    out.violation("--no-clobber %s onto an existing %s exited 0" % (" ".join(flags), dkind), rep)
                shutil.rmtree(d, ignore_errors=True)

    # two sources mapping onto the same destination name, the first a symlink that points at an EXISTING
    # destination entry: the walker's existence check for the second source races with the creation of the
    # link by a worker (directed schedule: the symlink call is held back)
    for driver in ("parfile", "parblock"):
        for first in ("link", "file"):
            for hold in (0, 400):
                d = os.path.join(d0, "same_%s_%s_%d" % (driver, first, hold))
                os.makedirs(os.path.join(d, "s1"))
                os.makedirs(os.path.join(d, "s2"))
                os.makedirs(os.path.join(d, "dst"))
                open(os.path.join(d, "dst", "victim"), "wb").write(b"victim original\n")
                open(os.path.join(d, "s2", "x"), "wb").write(b"new content from s2\n")
                os.symlink(os.path.join(d, "dst", "victim"), os.path.join(d, "s1", "x"))
                srcs = ["s1/x", "s2/x"] if first == "link" else ["s2/x", "s1/x"]
                before = xcp.snapshot(os.fsencode(d))
                argv = [ctx.bins["xcp"], "-n", "-w", "1", "--driver", driver] + srcs + ["dst"]
                rules = [("hold", hold, 0, "symlink", 1, "*")] if hold else []
                r = xcp.run_supervised(sup, argv, d, d, rules=rules, tag="st", timeout_ms=30000)
                after = xcp.snapshot(os.fsencode(d))
                out.case(("same-target", driver, first, hold), True)
                out.count("same_target_directed")
                rep = dict(kind="same-target", argv=argv[1:], hold_symlink_ms=hold, exit=r.exit, stderr=r.stderr[-200:])
                e, a = before[b"dst/victim"], after.get(b"dst/victim")
                if a is None or any(e.get(x) != a.get(x) for x in ("kind", "size", "sha", "mode", "mtime_ns")):
                    out.violation("--no-clobber: the existing entry dst/victim was overwritten through a symlink created by the "
                                  "same run (two sources map onto dst/x; exit %d)" % r.exit, rep)
                shutil.rmtree(d, ignore_errors=True)

    # several operands whose NAMES are prefixes of one another (data, data.old, data2; lib, lib64): an operand that the run
    # itself creates first says nothing about the next one, which exists already and must stop the run untouched
    pk = 0
    for driver in ("parfile", "parblock"):
        for (first, later, lkind) in [("data", "data.old", "file"), ("lib", "lib64", "dir"), ("a", "ab", "file"), ("x.d", "x.d.bak", "dir"),
                                      ("n", "n\xff".encode("latin-1").decode("utf-8", "surrogateescape"), "file")]:
            for order in ("new-first", "existing-first"):
                pk += 1
                d = os.path.join(d0, "pfx%d" % pk)
                os.makedirs(os.path.join(d, "dest"))
                os.makedirs(os.path.join(d, first, "inner"))
                open(os.path.join(d, first, "inner", "f"), "wb").write(b"fresh")
                if lkind == "file":
                    open(os.path.join(d, later), "wb").write(b"new content of the later operand")
                    open(os.path.join(d, "dest", later), "wb").write(b"EXISTING, must stay")
                    os.chmod(os.path.join(d, "dest", later), 0o600)
                else:
                    os.makedirs(os.path.join(d, later, "inner"))
                    open(os.path.join(d, later, "keep.txt"), "wb").write(b"new keep")
                    open(os.path.join(d, later, "inner", "deep.txt"), "wb").write(b"new deep")
                    os.makedirs(os.path.join(d, "dest", later, "inner"))
                    open(os.path.join(d, "dest", later, "keep.txt"), "wb").write(b"EXISTING keep")
                    open(os.path.join(d, "dest", later, "inner", "deep.txt"), "wb").write(b"EXISTING deep")
                before = xcp.snapshot(os.fsencode(d))
                ops = [first, later] if order == "new-first" else [later, first]
                argv = [ctx.bins["xcp"], "-r", "-n", "--driver", driver, "-w", str(rng.choice([1, 2, 4]))] + ops + ["dest"]
                r = xcp.run_supervised(sup, argv, d, d, tag="pf", timeout_ms=30000)
                after = xcp.snapshot(os.fsencode(d))
                out.case(("prefix-named-operands", driver, os.fsencode(first), order), True)
                out.count("prefix_named_operands")
                rep = dict(kind="operands whose names are prefixes of one another", argv=[os.fsencode(a).decode("latin-1") for a in argv[1:]], exit=r.exit, stderr=r.stderr[-200:])
                bad = None
                for p_, e in before.items():
                    if not p_.startswith(b"dest/"):
                        continue
                    a = after.get(p_)
                    keys = ("kind", "mode", "uid", "gid", "size", "sha", "link") + (("mtime_ns",) if e["kind"] == "file" else ())
                    if a is None or any(e.get(x) != a.get(x) for x in keys):
                        bad = "%r was %s" % (p_, "removed" if a is None else "altered")
                        break
                if bad:
                    out.violation("--no-clobber: " + bad + " (exit %d)" % r.exit, rep)
                elif r.exit == 0:
                    out.violation("--no-clobber: an operand maps onto an existing destination entry but exit was 0", rep)
                shutil.rmtree(d, ignore_errors=True)

    # source links whose TEXT, read from the place the copy of the link lands, designates an entry that already exists in
    # the destination and that no source maps onto (so the run is valid and must succeed): with every metadata option —
    # ownership, permissions, timestamps, xattrs, fsync — whatever is applied to the new link must stop at the link
    for k in range(8 if quick else 120):
        d = os.path.join(d0, "lt%d" % k)
        os.makedirs(os.path.join(d, "src", "sub"))
        os.makedirs(os.path.join(d, "dst", "bydir"))
        open(os.path.join(d, "dst", "bystander.txt"), "wb").write(b"bystander, existing before the run\n")
        os.chmod(os.path.join(d, "dst", "bystander.txt"), 0o640)
        open(os.path.join(d, "dst", "bydir", "inner"), "wb").write(b"inner")
        open(os.path.join(d, "outside.txt"), "wb").write(b"outside")
        open(os.path.join(d, "src", "a"), "wb").write(b"a" * 3000)
        open(os.path.join(d, "src", "sub", "f"), "wb").write(b"f" * 10)
        os.symlink("../../bystander.txt", os.path.join(d, "src", "sub", "l1"))     # from dst/src/sub: dst/bystander.txt
        os.symlink(os.path.join(d, "dst", "bydir"), os.path.join(d, "src", "sub", "l2"))
        os.symlink("../bystander.txt", os.path.join(d, "src", "l3"))
        os.symlink(os.path.join(d, "outside.txt"), os.path.join(d, "src", "l4"))
        for root, dirs, files in os.walk(os.path.join(d, "src")):
            for nme in dirs + files:
                os.chown(os.path.join(root, nme), 4242, 4343, follow_symlinks=False)
        os.chown(os.path.join(d, "src"), 4242, 4343)
        os.utime(os.path.join(d, "dst", "bystander.txt"), ns=(10 ** 18, 10 ** 18 + 5))
        before = xcp.snapshot(os.fsencode(d))
        driver = ["parfile", "parblock"][k % 2]
        extra = [["--ownership"], ["--ownership", "--fsync"], [], ["--no-perms", "--ownership"], ["--ownership", "--no-timestamps"]][(k // 2) % 5]
        argv = [ctx.bins["xcp"], "-r", "-n", "--driver", driver, "-w", str(rng.choice([1, 2, 4]))] + extra + ["src", "dst"]
        r = xcp.run_supervised(sup, argv, d, d, tag="lt", timeout_ms=30000)
        after = xcp.snapshot(os.fsencode(d))
        out.case(("link-text-existing", k, driver, tuple(extra)), True)
        out.count("link_text_designates_existing_entry")
        rep = dict(kind="links whose text designates existing destination entries", argv=argv[1:], exit=r.exit, stderr=r.stderr[-200:])
        bad = None
        for p_, e in before.items():
            if not (p_.startswith(b"dst") or p_ == b"outside.txt") or p_ == b"dst":
                continue
            a = after.get(p_)
            keys = ("kind", "mode", "uid", "gid", "size", "sha", "link", "xattr") + (("mtime_ns",) if e["kind"] == "file" else ())
            if a is None or any(e.get(x) != a.get(x) for x in keys):
                bad = "%r was %s" % (p_, "removed" if a is None else "altered (%s)" % {x: (e.get(x), a.get(x)) for x in keys if e.get(x) != a.get(x)})
                break
        if bad:
            out.violation("--no-clobber: an existing entry designated by the text of a copied link: " + bad, rep)
        elif r.exit != 0:
            out.corr("R1-noclobber-no-collision-failed", rep, "exit 0", r.exit)
        shutil.rmtree(d, ignore_errors=True)

    # -n with -f
    d = os.path.join(d0, "nf")
    os.makedirs(d)
    open(os.path.join(d, "a"), "w").write("x")
    r = xcp.run_plain([ctx.bins["xcp"], "-n", "-f", os.path.join(d, "a"), os.path.join(d, "b")], d)
    out.case(("n-f",), True)
    if r.exit == 0 or os.path.exists(os.path.join(d, "b")):
        out.violation("-n together with -f was not rejected", dict(exit=r.exit))
    if ctx.model_ok:
        models = treecase.model_walk([(True, False, [], b[1], b[2]) for b in batch])
        for (rep, coll, tenc), m in zip(batch, models):
            if m["wf"] != 1:
                continue
            if (m["ok"] == 1) != (rep["exit"] == 0):
                out.corr("R1-noclobber-result: model ok=%s, xcp exit %d" % (m["ok"], rep["exit"]), rep,
                         [repr(a) for a in m["acts"] if a[0] == "err"][:3], rep["exit"])
    import destmatrix
    destmatrix.run(ctx, out, "C08", opts=["no-clobber"])
