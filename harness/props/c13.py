"""C13 — --dereference copies what links point to, or fails."""
import os
import shutil

import core
import treecase
import trees
import xcp


def build(rng, d, kind):
    """source tree with a chosen mix of links; returns whether a dangling/cyclic link is reachable"""
    src = os.path.join(d, "src")
    os.makedirs(os.path.join(src, "real", "deep"))
    os.makedirs(os.path.join(d, "outside", "osub"))
    w = lambda p, c: open(os.path.join(d, p), "wb").write(c)
    w("src/real/f1", b"file one\n" * rng.randrange(1, 50))
    w("src/real/deep/f2", b"file two\n" * rng.randrange(1, 50))
    w("src/top", b"top file")
    w("outside/o1", b"outside file\n" * 7)
    w("outside/osub/o2", b"outside nested")
    bad = False
    L = lambda target, name: os.symlink(target, os.path.join(src, name))
    if "file" in kind:
        L("top", "l_file")
        L("real/f1", "l_file_rel")
        L(os.path.join(d, "outside", "o1"), "l_file_abs")
    if "dir" in kind:
        L("real", "l_dir")
        L("../outside", "l_dir_out")
        os.symlink("deep", os.path.join(src, "real", "l_deep"))
    if "chain" in kind:
        L("top", "c1")
        L("c1", "c2")
        L("c2", "c3")
        L("real", "d1")
        L("d1", "d2")
        prev = "top"
        for i in range(rng.choice([5, 12, 30])):
            L(prev, "ch%02d" % i)
            prev = "ch%02d" % i
    if "dangling" in kind:
        L("does-not-exist", "l_dangling")
        bad = True
    if "dangling-deep" in kind:
        os.symlink("nothing-here", os.path.join(src, "real", "deep", "l_dangling"))
        bad = True
    if "cycle" in kind:
        L("cy_b", "cy_a")
        L("cy_a", "cy_b")
        bad = True
    if "ancestor" in kind:
        os.symlink("..", os.path.join(src, "real", "l_up"))
        bad = True
    if "self" in kind:
        L("l_self", "l_self")
        bad = True
    return src, bad


KINDS = [("file",), ("dir",), ("chain",), ("file", "dir", "chain"), ("dangling",), ("dangling-deep",), ("cycle",), ("ancestor",),
         ("self",), ("file", "dangling"), ("dir", "cycle"), ()]


def run(ctx, out):
    rng = ctx.rng
    quick = ctx.tier == "quick"
    out.rule = ("source trees with links to files, to directories, to links (chains up to 30), relative and absolute, inside and "
                "outside the source, dangling (top level and deep), two-link cycles, self links and links to an ancestor; "
                "-r -L with both drivers; also link OPERANDS (to file / directory, chains, absolute, dangling, cyclic; alone, among "
                "several sources, onto a new name, together with a second link to the same entry and the entry itself); a -L copy over the result of an earlier plain copy (links, dangling links, stale files "
                "where directories must appear); three operands with a dangling / cyclic / self link inside the first, second or third; link targets (directories, files, chains; also as operand) on ANOTHER filesystem (/dev/shm); an errno at every readlink of a resolvable tree (exit 0 must still mean: no links); "
                "destination compared with an independent resolver (os.stat/os.listdir following links) "
                "and the Gallina walk on the resolved tree; non-trivial = tree contains a link; distinct = (link mix, driver, k)")
    d0 = ctx.work.fresh("c13")
    reps = 2 if quick else 25
    batch = []
    k = 0
    for _ in range(reps):
        for kind in KINDS:
            for driver in ("parfile", "parblock"):
                k += 1
                d = os.path.join(d0, "c%d" % k)
                os.makedirs(d)
                src, bad = build(rng, d, kind)
                dst = os.path.join(d, "dst")
                os.mkdir(dst)
                argv = [ctx.bins["xcp"], "-r", "-L", "--driver", driver, "-w", str(rng.choice([1, 2, 4])), src, dst]
                r = xcp.run_plain(argv, d)
                rep = dict(links=kind, driver=driver, argv=argv[1:], exit=r.exit, stderr=r.stderr[-300:])
                out.case(("deref", kind, driver, k), nontrivial=bool(kind))
                out.count("links_" + ("+".join(kind) or "none"))
                if bad:
                    if r.exit == 0:
                        out.violation("a dangling or cyclic link was skipped: exit 0", rep)
                else:
                    if r.exit != 0:
                        out.violation("-L copy of a resolvable tree failed: exit %d" % r.exit, rep)
                    else:
                        exp = treecase.expected_dest([os.fsencode(src)], os.fsencode(dst), False, True)
                        why = treecase.check_expected(exp)
                        if why:
                            out.violation("exit 0 but " + why, rep)
                        else:
                            for root, dirs, files in os.walk(dst):
                                for nme in dirs + files:
                                    if os.path.islink(os.path.join(root, nme)):
                                        out.violation("destination contains a symbolic link: %s" % os.path.join(root, nme), rep)
                                        break
                # model
                tenc, entries = treecase.scan(os.fsencode(src), True)
                batch.append((rep, tenc, bad))
                out.sample(dict(links=kind, driver=driver, exit=r.exit), limit=6)
                shutil.rmtree(d, ignore_errors=True)
    # the OPERAND itself is a link (to a file, to a directory, through chains, relative / absolute, alone or among other
    # sources): it is copied under ITS OWN name (cp's mapping rule names the destination entry after the source as written),
    # as what it resolves to; a dangling / cyclic operand fails
    kinds2 = ["to-dir", "to-file", "chain-dir", "chain-file", "abs-dir", "abs-file", "dangling", "cycle"]
    for rep_i in range(1 if quick else 6):
        for kind in kinds2:
            for driver in ("parfile", "parblock"):
                for form in ("into-dir", "multi", "new-name", "alias"):
                    if quick and form == "new-name" and kind not in ("to-dir", "to-file"):
                        continue
                    if form == "alias" and kind in ("dangling", "cycle"):
                        continue
                    k += 1
                    d = os.path.join(d0, "o%d" % k)
                    os.makedirs(os.path.join(d, "ops", "realdir", "sub"))
                    open(os.path.join(d, "ops", "realdir", "a.txt"), "wb").write(b"a" * rng.randrange(1, 3000))
                    open(os.path.join(d, "ops", "realdir", "sub", "b.bin"), "wb").write(b"b" * rng.randrange(1, 70000))
                    open(os.path.join(d, "ops", "realfile.bin"), "wb").write(b"r" * rng.randrange(1, 50000))
                    open(os.path.join(d, "ops", "plain.txt"), "wb").write(b"plain")
                    isdir = "dir" in kind
                    real = os.path.join(d, "ops", "realdir" if isdir else "realfile.bin")
                    link = os.path.join(d, "ops", "the_link")
                    if kind.startswith("to-"):
                        os.symlink(os.path.basename(real), link)
                    elif kind.startswith("chain-"):
                        os.symlink(os.path.basename(real), os.path.join(d, "ops", "hop1"))
                        os.symlink("hop1", os.path.join(d, "ops", "hop2"))
                        os.symlink("hop2", link)
                    elif kind.startswith("abs-"):
                        os.symlink(real, link)
                    elif kind == "dangling":
                        os.symlink("no-such-entry", link)
                    else:
                        os.symlink("the_link2", link)
                        os.symlink("the_link", os.path.join(d, "ops", "the_link2"))
                    bad = kind in ("dangling", "cycle")
                    dst = os.path.join(d, "dst")
                    if form == "new-name":
                        os.mkdir(dst)
                        target = os.path.join(dst, "fresh")
                        srcs = ["ops/the_link"]
                        argv = [ctx.bins["xcp"], "-r", "-L", "--driver", driver, "-w", str(rng.choice([1, 2, 4]))] + srcs + [target]
                        outs = {target: real}
                    elif form == "alias":
                        # the link, a second link to the same entry, AND the entry itself are operands of one invocation: they are
                        # the same file or directory once followed — three operands all the same, each with its own counterpart
                        os.mkdir(dst)
                        os.symlink(os.path.basename(real), os.path.join(d, "ops", "second_link"))
                        srcs = ["ops/" + os.path.basename(real), "ops/the_link", "ops/second_link"]
                        rng.shuffle(srcs)
                        argv = [ctx.bins["xcp"], "-r", "-L", "--driver", driver, "-w", str(rng.choice([1, 2, 4]))] + srcs + [dst]
                        outs = {os.path.join(dst, "the_link"): real, os.path.join(dst, "second_link"): real, os.path.join(dst, os.path.basename(real)): real}
                    else:
                        os.mkdir(dst)
                        srcs = ["ops/the_link"] if form == "into-dir" else ["ops/plain.txt", "ops/the_link"]
                        if rng.random() < 0.5:
                            srcs = [os.path.join(d, x) for x in srcs]
                        argv = [ctx.bins["xcp"], "-r", "-L", "--driver", driver, "-w", str(rng.choice([1, 2, 4]))] + srcs + [dst]
                        outs = {os.path.join(dst, "the_link"): real}
                        if form == "multi":
                            outs[os.path.join(dst, "plain.txt")] = os.path.join(d, "ops", "plain.txt")
                    r = xcp.run_plain(argv, d)
                    rep = dict(operand_link=kind, form=form, driver=driver, argv=argv[1:], exit=r.exit, stderr=r.stderr[-300:])
                    out.case(("deref-operand", kind, form, driver, k), nontrivial=True)
                    out.count("operand_" + kind)
                    if bad:
                        if r.exit == 0:
                            out.violation("a dangling / cyclic link OPERAND was skipped: exit 0", rep)
                    elif r.exit != 0:
                        out.violation("-L copy of a link operand that resolves failed: exit %d" % r.exit, rep)
                    else:
                        problem = None
                        for tp, rp in outs.items():
                            if os.path.islink(tp) or not os.path.lexists(tp):
                                problem = "%s is %s" % (os.path.relpath(tp, d), "a symbolic link" if os.path.islink(tp) else "missing (the link operand has no counterpart under its own name)")
                                break
                            if os.path.isdir(rp):
                                for root, dirs, files in os.walk(rp):
                                    for f in files:
                                        rel = os.path.relpath(os.path.join(root, f), rp)
                                        try:
                                            same = open(os.path.join(tp, rel), "rb").read() == open(os.path.join(root, f), "rb").read()
                                        except OSError:
                                            same = False
                                        if not same:
                                            problem = "%s differs / is missing" % os.path.relpath(os.path.join(tp, rel), d)
                            elif not os.path.isfile(tp) or open(tp, "rb").read() != open(rp, "rb").read():
                                problem = "%s does not hold the target's bytes" % os.path.relpath(tp, d)
                        extra = sorted(set(os.listdir(dst)) - {os.path.basename(t) for t in outs} - {"fresh"})
                        if not problem and extra:
                            problem = "unexpected entries in the destination: %s" % extra
                        if problem:
                            out.violation("exit 0 but " + problem, rep)
                    shutil.rmtree(d, ignore_errors=True)
    # a second copy WITH -L over the result of a first copy WITHOUT it: the destination holds the links verbatim (some of them
    # dangle there), files where directories must now appear ...: either the run fails or the destination ends up link-free
    # and complete — never exit 0 with the old entry left where a directory should have been created
    for rep_i in range(2 if quick else 12):
        for driver in ("parfile", "parblock"):
            k += 1
            d = os.path.join(d0, "h%d" % k)
            os.makedirs(os.path.join(d, "src", "sub"))
            os.makedirs(os.path.join(d, "ext", "spool"))          # an EMPTY directory outside the source
            os.makedirs(os.path.join(d, "ext", "cache"))
            os.makedirs(os.path.join(d, "out"))
            open(os.path.join(d, "src", "f"), "wb").write(b"f" * rng.randrange(1, 5000))
            open(os.path.join(d, "src", "sub", "g"), "wb").write(b"g" * 100)
            open(os.path.join(d, "ext", "real.txt"), "wb").write(b"real")
            only_empty_dirs = (rep_i % 2 == 0)      # every other history: the ONLY links are links to empty directories
            if not only_empty_dirs and rng.random() < 0.5:
                open(os.path.join(d, "ext", "cache", "blob"), "wb").write(b"blob")
            os.symlink("../ext/spool", os.path.join(d, "src", "spool"))                 # -> empty dir; dangles once copied to out/src
            os.symlink("../../ext/cache", os.path.join(d, "src", "sub", "c1"))
            os.symlink("c1", os.path.join(d, "src", "sub", "c2"))                       # chain to a directory
            if not only_empty_dirs:
                os.symlink("../ext/real.txt", os.path.join(d, "src", "lf"))
            first = xcp.run_plain([ctx.bins["xcp"], "-r", "--driver", driver, "src", "out"], d)
            if rng.random() < 0.5:
                # ... or a stale regular FILE sits where the directory link resolves to a directory
                try:
                    os.unlink(os.path.join(d, "out", "src", "sub", "c2"))
                    open(os.path.join(d, "out", "src", "sub", "c2"), "wb").write(b"stale file")
                except OSError:
                    pass
            argv = [ctx.bins["xcp"], "-r", "-L", "--driver", driver, "-w", str(rng.choice([1, 2, 4])), "src", "out"]
            r = xcp.run_plain(argv, d)
            out.case(("deref-over-plain-copy", driver, k), nontrivial=True)
            out.count("deref_history")
            rep = dict(history=["-r src out", "-r -L src out"], driver=driver, argv=argv[1:], first_exit=first.exit, exit=r.exit, stderr=r.stderr[-300:])
            if r.exit == 0:
                left = []
                for root, dirs, files in os.walk(os.path.join(d, "out", "src")):
                    for nme in dirs + files:
                        if os.path.islink(os.path.join(root, nme)):
                            left.append(os.path.relpath(os.path.join(root, nme), os.path.join(d, "out")))
                notdir = [x for x in ("spool", "sub/c1", "sub/c2") if not os.path.isdir(os.path.join(d, "out", "src", x))
                          or os.path.islink(os.path.join(d, "out", "src", x))]
                if left or notdir:
                    out.violation("-L over an earlier plain copy exited 0 but left links %s / non-directories %s where the links resolve to "
                                  "directories" % (left[:3], notdir), rep)
            shutil.rmtree(d, ignore_errors=True)
    # a link that cannot be RESOLVED at the moment it is met (readlink / stat of a component fails: EIO, EACCES, ELOOP,
    # ENAMETOOLONG) is like a dangling one: the run fails; it never falls back to recreating the link
    sup = core.build_sup()
    for kind in (("file",), ("chain",), ("file", "dir", "chain")):
        for driver in ("parfile", "parblock"):
            k += 1
            d = os.path.join(d0, "f%d" % k)
            os.makedirs(d)
            src, bad = build(rng, d, kind)
            dst = os.path.join(d, "dst")
            os.mkdir(dst)
            argv = [ctx.bins["xcp"], "-r", "-L", "--driver", driver, "-w", "2", src, dst]
            ref = xcp.run_supervised(sup, argv, d, d, tag="ref")
            calls = [e for e in ref.trace if e["sys"] in ("readlink", "readlinkat") and e["p1"].startswith(src)]
            points = list(range(1, len(calls) + 1))
            if quick:
                points = points[::max(1, len(points) // 8)]
            for nth in points:
                shutil.rmtree(dst, ignore_errors=True)
                os.mkdir(dst)
                errno = rng.choice([5, 13, 40, 36])
                sysn = calls[nth - 1]["sys"]
                n_same = sum(1 for c in calls[:nth] if c["sys"] == sysn)
                r = xcp.run_supervised(sup, argv, d, d, rules=[("fail", errno, 0, sysn, n_same, src)], tag="f", timeout_ms=20000)
                out.case(("deref-fault", kind, driver, nth, errno), nontrivial=True)
                out.count("readlink_faults")
                rep = dict(links=kind, driver=driver, argv=argv[1:], fault=(sysn, n_same, errno, calls[nth - 1]["p1"][len(d):]), exit=r.exit,
                           stderr=r.stderr[-200:])
                if r.exit == 0:
                    left = []
                    for root, dirs, files in os.walk(dst):
                        for nme in dirs + files:
                            if os.path.islink(os.path.join(root, nme)):
                                left.append(os.path.relpath(os.path.join(root, nme), dst))
                    if left:
                        out.violation("-L exited 0 and left symbolic links in the destination (%s) after a link could not be read" % left[:3], rep)
            shutil.rmtree(d, ignore_errors=True)
    # links whose targets live on ANOTHER filesystem (a tmpfs): `each link to a directory becomes a directory with the target's
    # contents` wherever the target is; links to files and chains across the boundary likewise
    other = "/dev/shm"
    try:
        usable = os.access(other, os.W_OK) and os.stat(other).st_dev != os.stat(d0).st_dev
    except OSError:
        usable = False
    if not usable:
        out.count("other_filesystem_unavailable")
    else:
        ext = os.path.join(other, "xcp-verif-c13-%d" % os.getpid())
        try:
            for driver in ("parfile", "parblock"):
                for operand_is_link in (False, True):
                    k += 1
                    shutil.rmtree(ext, ignore_errors=True)
                    os.makedirs(os.path.join(ext, "tree", "deep", "deeper"))
                    open(os.path.join(ext, "tree", "top.txt"), "wb").write(b"top on the other filesystem")
                    open(os.path.join(ext, "tree", "deep", "deeper", "leaf.bin"), "wb").write(b"L" * 70000)
                    open(os.path.join(ext, "file.dat"), "wb").write(b"file on the other filesystem")
                    os.symlink("tree", os.path.join(ext, "chain"))
                    d = os.path.join(d0, "x%d" % k)
                    os.makedirs(os.path.join(d, "src", "sub"))
                    open(os.path.join(d, "src", "local"), "wb").write(b"local")
                    os.symlink(os.path.join(ext, "tree"), os.path.join(d, "src", "faraway"))
                    os.symlink(os.path.join(ext, "file.dat"), os.path.join(d, "src", "sub", "farfile"))
                    os.symlink(os.path.join(ext, "chain"), os.path.join(d, "src", "sub", "farchain"))
                    os.symlink(os.path.join(ext, "tree"), os.path.join(d, "oplink"))
                    os.mkdir(os.path.join(d, "dst"))
                    argv = [ctx.bins["xcp"], "-r", "-L", "--driver", driver, "-w", "2", "oplink" if operand_is_link else "src", "dst"]
                    r = xcp.run_plain(argv, d)
                    out.case(("other-filesystem", driver, operand_is_link), True)
                    out.count("targets_on_another_filesystem")
                    rep = dict(kind="link targets on another filesystem (%s)" % other, argv=argv[1:], exit=r.exit, stderr=r.stderr[-200:])
                    if r.exit == 0:
                        roots = [os.path.join(d, "dst", "oplink")] if operand_is_link else \
                            [os.path.join(d, "dst", "src", "faraway"), os.path.join(d, "dst", "src", "sub", "farchain")]
                        why = None
                        for rt in roots:
                            for rel, body in (("top.txt", b"top on the other filesystem"), ("deep/deeper/leaf.bin", b"L" * 70000)):
                                pth = os.path.join(rt, rel)
                                if os.path.islink(pth) or not os.path.isfile(pth) or open(pth, "rb").read() != body:
                                    why = "%s is missing or wrong: the directory the link designates was not copied with its contents" % os.path.relpath(pth, d)
                        if not operand_is_link:
                            pth = os.path.join(d, "dst", "src", "sub", "farfile")
                            if os.path.islink(pth) or not os.path.isfile(pth) or open(pth, "rb").read() != b"file on the other filesystem":
                                why = "dst/src/sub/farfile is not a regular file with the target's bytes"
                        for root, dirs, files in os.walk(os.path.join(d, "dst")):
                            for nme in dirs + files:
                                if os.path.islink(os.path.join(root, nme)):
                                    why = "a symbolic link was left in the destination: %s" % os.path.relpath(os.path.join(root, nme), d)
                        if why:
                            out.violation("-L exited 0 but " + why, rep)
                    else:
                        out.corr("R1-deref-valid-run-failed", rep, "exit 0", r.exit)
                    shutil.rmtree(d, ignore_errors=True)
        finally:
            shutil.rmtree(ext, ignore_errors=True)
    # several operands, a dangling or cyclic link INSIDE one of them, at every position: the run exits non-zero whichever
    # operand holds it (what a later, clean operand returns says nothing about an earlier one)
    for driver in ("parfile", "parblock"):
        for bad in ("dangling", "cycle", "self"):
            for pos in (0, 1, 2):
                k += 1
                d = os.path.join(d0, "mo%d" % k)
                ops = []
                for i in range(3):
                    o = os.path.join(d, "op%d" % i)
                    os.makedirs(os.path.join(o, "sub"))
                    open(os.path.join(o, "f%d" % i), "wb").write(b"file %d" % i)
                    open(os.path.join(o, "sub", "g"), "wb").write(b"g")
                    os.symlink("f%d" % i, os.path.join(o, "goodlink"))
                    ops.append("op%d" % i)
                o = os.path.join(d, "op%d" % pos, "sub")
                if bad == "dangling":
                    os.symlink("nowhere", os.path.join(o, "broken"))
                elif bad == "cycle":
                    os.symlink("c2", os.path.join(o, "c1"))
                    os.symlink("c1", os.path.join(o, "c2"))
                else:
                    os.symlink("me", os.path.join(o, "me"))
                os.mkdir(os.path.join(d, "dst"))
                argv = [ctx.bins["xcp"], "-r", "-L", "--driver", driver, "-w", str(rng.choice([1, 2, 4]))] + ops + ["dst"]
                r = xcp.run_plain(argv, d)
                out.case(("bad-link-in-one-operand", driver, bad, pos), True)
                out.count("bad_link_in_one_of_several_operands")
                if r.exit == 0:
                    out.violation("-L with a %s link inside operand %d of 3 exited 0 (the link is simply absent from the destination)" % (bad, pos + 1),
                                  dict(argv=argv[1:], exit=r.exit, stderr=r.stderr[-200:]))
                shutil.rmtree(d, ignore_errors=True)
    if ctx.model_ok:
        models = treecase.model_walk([(False, True, [], [], b[1]) for b in batch])
        for (rep, tenc, bad), m in zip(batch, models):
            if m["wf"] != 1:
                continue
            if (m["ok"] == 1) != (rep["exit"] == 0):
                out.corr("R1-deref-result: model ok=%s, xcp exit %d" % (m["ok"], rep["exit"]), rep,
                         [a for a in m["acts"] if a[0] == "err"][:3], rep["exit"])
            if any(a[0] == "link" for a in m["acts"]):
                out.corr("model emitted a link under dereference", rep, "no links", "link")
