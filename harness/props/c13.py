"""C13 — --dereference copies what links point to, or fails."""
import os
import shutil

import core
import treecase
import trees
import xcp


def build(rng, d, kind):
    """source tree with a chosen mix of links; returns whether a dangling/cyclic link is reachable"""
    src = os.path.join(d, "src")
    os.makedirs(os.path.join(src, "real", "deep"))
    os.makedirs(os.path.join(d, "outside", "osub"))
    w = lambda p, c: open(os.path.join(d, p), "wb").write(c)
    w("src/real/f1", b"file one\n" * rng.randrange(1, 50))
    w("src/real/deep/f2", b"file two\n" * rng.randrange(1, 50))
    w("src/top", b"top file")
    w("outside/o1", b"outside file\n" * 7)
    w("outside/osub/o2", b"outside nested")
    bad = False
    L = lambda target, name: os.symlink(target, os.path.join(src, name))
    if "file" in kind:
        L("top", "l_file")
        L("real/f1", "l_file_rel")
        L(os.path.join(d, "outside", "o1"), "l_file_abs")
    if "dir" in kind:
        L("real", "l_dir")
        L("../outside", "l_dir_out")
        os.symlink("deep", os.path.join(src, "real", "l_deep"))
    if "chain" in kind:
        L("top", "c1")
        L("c1", "c2")
        L("c2", "c3")
        L("real", "d1")
        L("d1", "d2")
        prev = "top"
        for i in range(rng.choice([5, 12, 30])):
            L(prev, "ch%02d" % i)
            prev = "ch%02d" % i
    if "dangling" in kind:
        L("does-not-exist", "l_dangling")
        bad = True
    if "dangling-deep" in kind:
        os.symlink("nothing-here", os.path.join(src, "real", "deep", "l_dangling"))
        bad = True
    if "cycle" in kind:
        L("cy_b", "cy_a")
        L("cy_a", "cy_b")
        bad = True
    if "ancestor" in kind:
        os.symlink("..", os.path.join(src, "real", "l_up"))
        bad = True
    if "self" in kind:
        L("l_self", "l_self")
        bad = True
    return src, bad


KINDS = [("file",), ("dir",), ("chain",), ("file", "dir", "chain"), ("dangling",), ("dangling-deep",), ("cycle",), ("ancestor",),
         ("self",), ("file", "dangling"), ("dir", "cycle"), ()]


def run(ctx, out):
    rng = ctx.rng
    quick = ctx.tier == "quick"
    out.rule = ("source trees with links to files, to directories, to links (chains up to 30), relative and absolute, inside and "
                "outside the source, dangling (top level and deep), two-link cycles, self links and links to an ancestor; "
                "-r -L with both drivers; destination compared with an independent resolver (os.stat/os.listdir following links) "
                "and the Gallina walk on the resolved tree; non-trivial = tree contains a link; distinct = (link mix, driver, k)")
    d0 = ctx.work.fresh("c13")
    reps = 2 if quick else 25
    batch = []
    k = 0
    for _ in range(reps):
        for kind in KINDS:
            for driver in ("parfile", "parblock"):
                k += 1
                d = os.path.join(d0, "c%d" % k)
                os.makedirs(d)
                src, bad = build(rng, d, kind)
                dst = os.path.join(d, "dst")
                os.mkdir(dst)
                argv = [ctx.bins["xcp"], "-r", "-L", "--driver", driver, "-w", str(rng.choice([1, 2, 4])), src, dst]
                r = xcp.run_plain(argv, d)
                rep = dict(links=kind, driver=driver, argv=argv[1:], exit=r.exit, stderr=r.stderr[-300:])
                out.case(("deref", kind, driver, k), nontrivial=bool(kind))
                out.count("links_" + ("+".join(kind) or "none"))
                if bad:
                    if r.exit == 0:
                        out.violation("a dangling or cyclic link was skipped: exit 0", rep)
                else:
                    if r.exit != 0:
                        out.violation("-L copy of a resolvable tree failed: exit %d" % r.exit, rep)
                    else:
                        exp = treecase.expected_dest([os.fsencode(src)], os.fsencode(dst), False, True)
                        why = treecase.check_expected(exp)
                        if why:
                            out.violation("exit 0 but " + why, rep)
                        else:
                            for root, dirs, files in os.walk(dst):
                                for nme in dirs + files:
                                    if os.path.islink(os.path.join(root, nme)):
                                        out.violation("destination contains a symbolic link: %s" % os.path.join(root, nme), rep)
                                        break
                # model
                tenc, entries = treecase.scan(os.fsencode(src), True)
                batch.append((rep, tenc, bad))
                out.sample(dict(links=kind, driver=driver, exit=r.exit), limit=6)
                shutil.rmtree(d, ignore_errors=True)
    if ctx.model_ok:
        models = treecase.model_walk([(False, True, [], [], b[1]) for b in batch])
        for (rep, tenc, bad), m in zip(batch, models):
            if m["wf"] != 1:
                continue
            if (m["ok"] == 1) != (rep["exit"] == 0):
                out.corr("R1-deref-result: model ok=%s, xcp exit %d" % (m["ok"], rep["exit"]), rep,
                         [a for a in m["acts"] if a[0] == "err"][:3], rep["exit"])
            if any(a[0] == "link" for a in m["acts"]):
                out.corr("model emitted a link under dereference", rep, "no links", "link")
