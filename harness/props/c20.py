"""C20 — open descriptors stay bounded regardless of how many files are copied.

Correspondence: the supervisor holds every pool worker at its first kernel copy
until the whole program is quiescent, so the dispatcher runs ahead until the
pool's bounded queue stops it; the number of destination+source descriptors
open at that moment is read off the trace and must EQUAL 2 x the number of open
handles in the ConcBlock model in the corresponding state (run_sched with no
job completing: Q + W + 1 handles for one-block files, Q = 128) — this ties the
model's Q to the source — and must not grow with the tree.  Direct oracle: the
peak never exceeds 2*(128 + W + 1) (parblock) / 2*W (parfile), and trees of
thousands of files copy with exit 0 under RLIMIT_NOFILE = 1024 with up to 64
workers."""
import os
import shutil

import core
import xcp

Q = 128


def make_tree(root, n, size, per_dir=200):
    os.makedirs(root)
    data = bytes((i * 7 + 1) & 0xFF or 1 for i in range(size))
    for i in range(n):
        sub = os.path.join(root, "d%03d" % (i // per_dir))
        if i % per_dir == 0:
            os.makedirs(sub)
        with open(os.path.join(sub, "f%05d" % i), "wb") as f:
            f.write(data)


def peak_open(run, root, at=None):
    """peak number of simultaneously open descriptors on regular files below root (at=seq: the number open at that point)"""
    fds = {}
    peak = 0
    evs = sorted([e for e in run.trace if e.get("ret") is not None], key=lambda e: e["x"])
    for e in evs:
        s = e["sys"]
        if at is not None and e["x"] > at:
            return len(fds)
        if s in ("openat", "open") and e["ret"] >= 0 and e["p1"].startswith(root):
            flags = e["a"][2] if s == "openat" else e["a"][1]
            if flags & 0o200000:      # O_DIRECTORY
                continue
            fds[e["ret"]] = e["p1"]
            peak = max(peak, len(fds))
        elif s in ("dup", "dup2", "dup3", "fcntl") and e["ret"] >= 0 and e["p1"].startswith(root) and e["a"][0] in fds:
            # a duplicate of an open file is one more open descriptor (fcntl: F_DUPFD = 0, F_DUPFD_CLOEXEC = 1030)
            if s != "fcntl" or e["a"][1] in (0, 1030):
                fds[e["ret"]] = e["p1"]
                peak = max(peak, len(fds))
        elif s == "close" and e["a"][0] in fds:
            del fds[e["a"][0]]
    return len(fds) if at is not None else peak


def run(ctx, out):
    rng = ctx.rng
    quick = ctx.tier == "quick"
    sup = core.build_sup()
    d0 = ctx.work.fresh("c20")
    out.rule = ("(a) supervised parblock runs with all W pool workers held at their first copy_file_range until the program is "
                "quiescent: peak open file descriptors == 2 x open handles of the ConcBlock model (vm_compute of run_sched with "
                "no job completing) for trees of 300 and 1500 one-block files and 3-block files, W in {1,2,4,16}; "
                "(b) parfile peak <= 2W (duplicated descriptors count), with --fsync every flush is held 40 ms by the supervisor, then also "
                "parblock <= 2(128+W+1); (c) unsupervised runs of 3000-file trees (thorough: 30000) under RLIMIT_NOFILE=1024 "
                "with 1..64 workers, both drivers, must exit 0 with a complete destination; (d) chains of 200 nested directories (supervised: <= 16 directory descriptors at once) "
                "and of 1100 (deeper than the limit of 1024) copy with exit 0; non-trivial = all; distinct = config")
    configs = [(300, 1, 4), (1500, 1, 4), (300, 1, 1), (300, 1, 16), (400, 3, 2)]
    if not quick:
        configs += [(3000, 1, 64), (3000, 1, 8), (1000, 3, 4), (1000, 5, 16), (6000, 1, 2)]
    minputs, mmeta = [], []
    bs = 16384
    for (n, bpf, w) in configs:
        d = os.path.join(d0, "hold_%d_%d_%d" % (n, bpf, w))
        os.makedirs(d)
        size = 100 if bpf == 1 else bs * (bpf - 1) + 50
        make_tree(os.path.join(d, "src"), n, size)
        argv = [ctx.bins["xcp"], "-r", "--driver", "parblock", "-w", str(w), "--block-size", str(bs), "src", "dst"]
        expect_fds = 2 * min(n, Q + w + 1) if bpf == 1 else None
        for quiet in (500, 3000):
            # the workers are released when nothing has entered a system call for `quiet` ms; on a loaded machine the
            # dispatcher itself may pause that long, so a run that falls short of the model is repeated with a longer pause
            shutil.rmtree(os.path.join(d, "dst"), ignore_errors=True)
            rules = [("holdq", 30000, quiet, "copy_file_range", k, "*") for k in range(1, w + 1)]
            r = xcp.run_supervised(sup, argv, d, d, rules=rules, tag="h", timeout_ms=120000, nofile=1024)
            if expect_fds is None or r.exit != 0 or "quiet" not in r.meta or peak_open(r, d, at=r.meta["quiet"]) >= expect_fds:
                break
            out.count("held_runs_repeated_with_longer_quiet")
        rep = dict(files=n, blocks_per_file=bpf, workers=w, argv=argv[1:])
        out.case(("held", n, bpf, w), True)
        out.count("held_runs")
        if r.exit != 0:
            out.violation("held parblock run failed (exit %d): %s" % (r.exit, r.stderr[-200:]), rep)
        else:
            pk = peak_open(r, d)
            rep["peak_fds"] = pk
            bound = 2 * (Q + w + 1)
            if pk > bound:
                out.violation("peak of %d open file descriptors exceeds 2*(128+W+1) = %d" % (pk, bound), rep)
            if "quiet" not in r.meta:
                out.corr("R2-open-handles: the held workers were never released by quiescence", rep, None, r.meta)
                shutil.rmtree(d, ignore_errors=True)
                continue
            held = peak_open(r, d, at=r.meta["quiet"])
            rep["fds_when_quiescent"] = held
            minputs.append([w, Q, n, bpf])
            mmeta.append((rep, held))
            out.sample(dict(rep))
        shutil.rmtree(d, ignore_errors=True)
    if ctx.model_ok and minputs:
        res = core.run_model("run_open_peak", minputs, shard=4, tag="c20")
        for (rep, pk), mo in zip(mmeta, res):
            if pk != 2 * mo[0]:
                out.corr("R2-open-handles (ConcBlock run with held workers)", rep, dict(model_handles=mo[0], queued=mo[1], running=mo[2]),
                         dict(peak_fds=pk))
    # growth: the peak for 1500 files must equal the peak for 300
    pk300 = [rep["peak_fds"] for (rep, pk) in mmeta if rep["files"] == 300 and rep["workers"] == 4 and rep["blocks_per_file"] == 1]
    pk1500 = [rep["peak_fds"] for (rep, pk) in mmeta if rep["files"] == 1500 and rep["workers"] == 4]
    if pk300 and pk1500 and pk1500[0] > pk300[0]:
        out.violation("the peak grows with the tree: %d descriptors for 300 files, %d for 1500" % (pk300[0], pk1500[0]),
                      dict(peaks=(pk300[0], pk1500[0])))
    # (b) parfile
    for w, extra in (((2, []), (8, []), (4, ["--fsync"]), (2, ["--fsync", "--ownership"])) if quick else
                     ((1, []), (2, []), (8, []), (32, []), (1, ["--fsync"]), (4, ["--fsync"]), (16, ["--fsync", "--ownership"]),
                      (4, ["--no-perms", "--no-timestamps"]), (4, ["--backup", "numbered"]))):
        d = os.path.join(d0, "pf_%d_%d" % (w, len(extra)))
        os.makedirs(d)
        make_tree(os.path.join(d, "src"), 300, 100)
        argv = [ctx.bins["xcp"], "-r", "--driver", "parfile", "-w", str(w)] + extra + ["src", "dst"]
        # "workers slowed down relative to the dispatcher": with --fsync every flush is held for a while, so files complete
        # faster than their flushes return
        rules = [("hold", 40, 0, "fsync", 0, "*"), ("hold", 40, 0, "fdatasync", 0, "*")] if "--fsync" in extra else None
        r = xcp.run_supervised(sup, argv, d, d, seed=w, hold_permille=100, hold_maxms=3, tag="p", timeout_ms=120000, nofile=1024,
                               rules=rules)
        out.case(("parfile", w, tuple(extra)), True)
        out.count("parfile_runs")
        pk = peak_open(r, d)
        if r.exit != 0:
            out.violation("parfile run failed (exit %d): %s" % (r.exit, r.stderr[-200:]), dict(argv=argv[1:]))
        elif pk > 2 * w:
            out.violation("parfile with %d workers had %d file descriptors open at once (> 2W)" % (w, pk), dict(argv=argv[1:], rules=rules))
        if rules:
            # the same with the block driver: slow flushes must not let descriptors pile up beyond the queue bound
            shutil.rmtree(os.path.join(d, "dst"), ignore_errors=True)
            argv = [ctx.bins["xcp"], "-r", "--driver", "parblock", "-w", str(w)] + extra + ["src", "dst"]
            r = xcp.run_supervised(sup, argv, d, d, seed=w, hold_permille=100, hold_maxms=3, tag="q", timeout_ms=120000, nofile=1024,
                                   rules=rules)
            out.case(("parblock-slow-fsync", w, tuple(extra)), True)
            out.count("parblock_slow_fsync_runs")
            pk = peak_open(r, d)
            if r.exit != 0:
                out.violation("parblock run failed (exit %d): %s" % (r.exit, r.stderr[-200:]), dict(argv=argv[1:]))
            elif pk > 2 * (Q + w + 1):
                out.violation("parblock with %d workers and slow fsync had %d file descriptors open at once (> 2*(128+W+1))" % (w, pk),
                              dict(argv=argv[1:], rules=rules))
        shutil.rmtree(d, ignore_errors=True)
    # (c) unsupervised under the default limit
    big = 3000 if quick else 30000
    d = os.path.join(d0, "big")
    os.makedirs(d)
    make_tree(os.path.join(d, "src"), big, 64)
    import resource
    for driver, w, extra in ([("parblock", 64, []), ("parblock", 2, ["--fsync"]), ("parfile", 64, []), ("parfile", 4, ["--fsync"])] if quick else
                             [("parblock", 64, []), ("parblock", 16, ["--fsync"]), ("parblock", 1, []), ("parfile", 64, []),
                              ("parfile", 4, ["--fsync"]), ("parfile", 1, ["--fsync", "--ownership"]), ("parblock", 4, ["--backup", "numbered"])]):
        shutil.rmtree(os.path.join(d, "dst"), ignore_errors=True)
        argv = [ctx.bins["xcp"], "-r", "--driver", driver, "-w", str(w)] + extra + ["src", "dst"]
        import subprocess
        try:
            p = subprocess.run(argv, cwd=d, capture_output=True, timeout=600, env=dict(os.environ, RUST_BACKTRACE="0"),
                               preexec_fn=lambda: resource.setrlimit(resource.RLIMIT_NOFILE, (1024, 1024)))
            code, err = p.returncode, p.stderr.decode("utf-8", "replace")
        except subprocess.TimeoutExpired:
            code, err = 124, "timeout"
        out.case(("nofile1024", driver, w, big, tuple(extra)), True)
        out.count("rlimit_runs")
        ncopied = sum(len(fs) for _, _, fs in os.walk(os.path.join(d, "dst")))
        if code != 0 or ncopied != big:
            out.violation("%d-file tree with %s, %d workers under RLIMIT_NOFILE=1024: exit %d, %d files copied (%s)"
                          % (big, driver, w, code, ncopied, err[-200:]), dict(argv=argv[1:], files=big))
    shutil.rmtree(d, ignore_errors=True)
    # (d) `a tree of any size` is also a tree of any DEPTH: a chain of nested directories, one small file per level.  Directory
    # streams are descriptors too: their number must not grow with the depth either (supervised, depth 200: at most 16 open at
    # once), and a chain deeper than the descriptor limit (1100 levels under RLIMIT_NOFILE=1024) copies with exit 0
    def make_chain(root, depth):
        p = root
        os.makedirs(p)
        for i in range(depth):
            p = os.path.join(p, "n")
            os.mkdir(p)
            with open(os.path.join(p, "f"), "wb") as f:
                f.write(b"level %d" % i)

    def open_dirs_peak(run, root):
        fds, peak = {}, 0
        for e in sorted([e for e in run.trace if e.get("ret") is not None], key=lambda e: e["x"]):
            if e["sys"] in ("openat", "open") and e["ret"] >= 0 and e["p1"].startswith(root):
                flags = e["a"][2] if e["sys"] == "openat" else e["a"][1]
                if flags & 0o200000:
                    fds[e["ret"]] = e["p1"]
                    peak = max(peak, len(fds))
            elif e["sys"] == "close" and e["a"][0] in fds:
                del fds[e["a"][0]]
        return peak
    for driver in ("parfile", "parblock"):
        d = os.path.join(d0, "chain200_" + driver)
        os.makedirs(d)
        make_chain(os.path.join(d, "src"), 200)
        argv = [ctx.bins["xcp"], "-r", "--driver", driver, "-w", "4", "src", "dst"]
        r = xcp.run_supervised(sup, argv, d, d, tag="c", timeout_ms=120000, nofile=1024)
        out.case(("chain", driver, 200), True)
        out.count("deep_chain_runs")
        pk = open_dirs_peak(r, d)
        if r.exit != 0:
            out.violation("a chain of 200 nested directories failed to copy (exit %d): %s" % (r.exit, r.stderr[-200:]), dict(argv=argv[1:], depth=200))
        elif pk > 16:
            out.violation("%d directory descriptors open at once while walking a chain of 200 nested directories: the number grows with "
                          "the depth of the tree" % pk, dict(argv=argv[1:], depth=200, open_directories_peak=pk))
        subprocess.run(["rm", "-rf", d], capture_output=True)
        d = os.path.join(d0, "chain1100_" + driver)
        os.makedirs(d)
        make_chain(os.path.join(d, "src"), 1100)
        argv = [ctx.bins["xcp"], "-r", "--driver", driver, "-w", "4", "src", "dst"]
        try:
            p = subprocess.run(argv, cwd=d, capture_output=True, timeout=600, env=dict(os.environ, RUST_BACKTRACE="0"),
                               preexec_fn=lambda: resource.setrlimit(resource.RLIMIT_NOFILE, (1024, 1024)))
            code, err = p.returncode, p.stderr.decode("utf-8", "replace")
        except subprocess.TimeoutExpired:
            code, err = 124, "timeout"
        out.case(("chain-nofile1024", driver, 1100), True)
        out.count("deep_chain_runs")
        ncopied = int(subprocess.run("find dst -type f | wc -l", shell=True, cwd=d, capture_output=True, text=True).stdout.strip() or 0)
        if code != 0 or ncopied != 1100:
            out.violation("a chain of 1100 nested directories with %s under RLIMIT_NOFILE=1024: exit %d, %d of 1100 files copied (%s)"
                          % (driver, code, ncopied, err[-200:]), dict(argv=argv[1:], depth=1100))
        subprocess.run(["rm", "-rf", d], capture_output=True)
