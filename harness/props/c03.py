"""C03 — sources and bystander files are never modified, even by self-copies or kills."""
import os
import re
import shutil

import core
import treecase
import trees
import xcp


def norm(p):
    return os.path.normpath(p)


def world(d, kind):
    """build a small world; returns (argv tail, allowed-mutation predicate inputs)"""
    w = lambda p, c: open(os.path.join(d, p), "wb").write(c)
    if kind == "overwrite-backup":
        os.makedirs(os.path.join(d, "dst"))
        w("f", b"NEW" * 3000)
        os.setxattr(os.path.join(d, "f"), "user.k", b"v")
        w("dst/f", b"OLD" * 100)
        w("dst/f.~2~", b"older")
        w("bystander", b"by")
        return ["--backup", "numbered", "f", "dst/"], ["dst"]
    if kind == "tree":
        os.makedirs(os.path.join(d, "src", "sub"))
        os.makedirs(os.path.join(d, "dst"))
        w("src/a", b"a" * 5000)
        w("src/sub/b", b"b" * 70000)
        w("src/empty", b"")
        os.symlink("a", os.path.join(d, "src", "l"))
        w("dst/keep", b"keep")
        w("bystander", b"by")
        return ["-r", "src", "dst"], ["dst"]
    if kind == "tree-overwrite":
        os.makedirs(os.path.join(d, "src", "sub"))
        os.makedirs(os.path.join(d, "dst", "src", "sub"))
        w("src/a", b"a" * 5000)
        w("src/sub/b", b"b" * 9000)
        w("dst/src/a", b"stale")
        w("dst/src/sub/b", b"stale" * 5000)
        w("bystander", b"by")
        return ["-r", "--backup", "numbered", "src", "dst"], ["dst"]
    raise ValueError(kind)


ALIAS = [
    ("dotslash", lambda d: (["f", "./f"], None)),
    ("dotdot", lambda d: (["f", "sub/../f"], None)),
    ("owndir", lambda d: (["f", "."], None)),
    ("symlink", lambda d: (["f", "sl"], None)),
    ("hardlink", lambda d: (["f", "hl"], None)),
    ("abs", lambda d: (["f", os.path.join(d, "f")], None)),
    ("dir-T-dotslash", lambda d: (["-r", "-T", "dd", "./dd"], None)),
    ("dir-into-parent", lambda d: (["-r", "dd", "dd/.."], None)),
    ("dir-via-symlink", lambda d: (["-r", "dd", "dlink"], None)),            # dlink -> . : maps dd onto itself
    ("tree-hardlinked", lambda d: (["-r", "dd", "hd"], None)),               # hd/dd/x is a hard link of dd/x
    ("tree-symlinked", lambda d: (["-r", "ee", "sd"], None)),                # sd/ee/x, sd/ee/in/y are symlinks to ee/x, ee/in/y (one link each)
    ("tree-symlinked-abs", lambda d: (["-r", "ee", "sda"], None)),           # the same through absolute link texts
    ("among-valid", lambda d: (["g", "f", "."], None)),
    ("backup-alias", lambda d: (["--backup", "numbered", "f", "./f"], None)),
    # a DIRECTORY of the destination tree is a symbolic link back into the source (sdd/ff/in -> ../../ff/in): the mapped
    # destination of ff/in/y is ff/in/y itself, reached by another spelling — with and without backups, which rename first
    ("tree-symlinked-dir", lambda d: (["-r", "ff", "sdd"], None)),
    ("tree-symlinked-dir-backup", lambda d: (["-r", "--backup", "numbered", "ff", "sdd"], None)),
    ("tree-symlinked-dir-backup-auto", lambda d: (["-r", "--backup", "auto", "ff", "sdd"], None)),
    ("T-alias", lambda d: (["-T", "f", "sub/../f"], None)),
]


def alias_world(d):
    w = lambda p, c: open(os.path.join(d, p), "wb").write(c)
    os.makedirs(os.path.join(d, "sub"))
    os.makedirs(os.path.join(d, "dd", "in"))
    os.makedirs(os.path.join(d, "hd", "dd", "in"))
    os.makedirs(os.path.join(d, "other"))
    w("f", b"precious source content\n" * 40)
    w("other/g", b"g")
    w("g", b"valid other source")
    w("dd/x", b"x content" * 10)
    w("dd/in/y", b"y content" * 10)
    os.symlink("f", os.path.join(d, "sl"))
    os.link(os.path.join(d, "f"), os.path.join(d, "hl"))
    os.symlink(".", os.path.join(d, "dlink"))
    os.link(os.path.join(d, "dd", "x"), os.path.join(d, "hd", "dd", "x"))
    os.link(os.path.join(d, "dd", "in", "y"), os.path.join(d, "hd", "dd", "in", "y"))
    os.makedirs(os.path.join(d, "ee", "in"))
    w("ee/x", b"singly linked x" * 10)
    w("ee/in/y", b"singly linked y" * 10)
    os.makedirs(os.path.join(d, "sd", "ee", "in"))
    os.symlink("../../ee/x", os.path.join(d, "sd", "ee", "x"))
    os.symlink("../../../ee/in/y", os.path.join(d, "sd", "ee", "in", "y"))
    os.makedirs(os.path.join(d, "ff", "in"))
    w("ff/in/y", b"reached through a symlinked directory" * 10)
    w("ff/in/y.~4~", b"an older backup inside the source")
    os.makedirs(os.path.join(d, "sdd", "ff"))
    os.symlink("../../ff/in", os.path.join(d, "sdd", "ff", "in"))
    os.makedirs(os.path.join(d, "sda", "ee", "in"))
    os.symlink(os.path.join(d, "ee", "x"), os.path.join(d, "sda", "ee", "x"))
    os.symlink(os.path.join(d, "ee", "in", "y"), os.path.join(d, "sda", "ee", "in", "y"))


def src_snapshot(d, exclude_prefixes):
    snap = xcp.snapshot(os.fsencode(d))
    return {p: e for p, e in snap.items() if not any(p == x or p.startswith(x + b"/") for x in exclude_prefixes)
            and not p.startswith(b".sup")}


def cmp_snap(a, b):
    for p, e in a.items():
        x = b.get(p)
        if x is None:
            return "%r disappeared" % p
        keys = ("kind", "mode", "uid", "gid", "size", "sha", "link", "rdev", "xattr") + (("mtime_ns",) if e["kind"] == "file" else ())
        for k in keys:
            if e.get(k) != x.get(k):
                return "%r changed (%s: %r -> %r)" % (p, k, e.get(k), x.get(k))
    for p in b:
        if p not in a:
            return "%r appeared outside the destination" % p
    return None


def run(ctx, out):
    rng = ctx.rng
    quick = ctx.tier == "quick"
    sup = core.build_sup()
    out.rule = ("(a) alias invocations: destination designates the source via ./f, d/../f, its own directory, an absolute path, a "
                "symlink, a hard link, a directory onto itself / into its parent / through a directory symlink, a hard-linked "
                "earlier copy, with and without backups and other valid sources, both drivers; (b) SIGKILL before and after every "
                "mutating system call of small copies (overwrite with numbered backup, tree, tree overwrite); (c) one injected "
                "errno at every call; (d) FIFO / socket / device sources whose mapped target is the source node itself through a "
                "symlinked directory of the destination; (e) a dangling symbolic link (absolute / relative, pointing outside or "
                "inside the destination) where a regular file is to be copied; (f) an operand that is a link to a directory, so that "
                "the run itself creates the alias (the link's creation held back / random holds); in all of them every source and bystander entry is compared before/after (content, kind, "
                "mode, owner, mtime, xattrs) and every mutating call of the trace must target a mapped destination path or its "
                "backup; non-trivial = all; distinct = (case, point)")
    d0 = ctx.work.fresh("c03")
    # ---- (a) aliases
    for (label, mk) in ALIAS:
        for driver in ("parfile", "parblock"):
            d = os.path.join(d0, "al_%s_%s" % (label, driver))
            os.makedirs(d)
            alias_world(d)
            tail, _ = mk(d)
            before = src_snapshot(d, [])
            argv = [ctx.bins["xcp"], "--driver", driver, "-w", "2"] + tail
            r = xcp.run_supervised(sup, argv, d, d, tag="a")
            after = src_snapshot(d, [])
            rep = dict(kind="alias", label=label, driver=driver, argv=argv[1:], exit=r.exit, stderr=r.stderr[-300:])
            out.case(("alias", label, driver), True)
            out.count("alias")
            if r.exit == 0 and label != "among-valid":
                # a no-op would be acceptable; it must not have changed anything
                pass
            why = cmp_snap(before, after)
            if label == "among-valid" and why and "appeared" in why:
                why = None if r.exit != 0 and False else why
            if why:
                out.violation("self-copy (%s): %s" % (label, why), rep)
            muts = [e for e in r.trace if xcp.is_mutating(e) and "/.sup" not in e["p1"] and (e.get("ret") or 0) >= 0]
            if muts and not why:
                out.violation("self-copy (%s) issued a mutating call: %s %s" % (label, muts[0]["sys"], muts[0]["p1"]), rep)
            # (a') the same alias invocation with one errno injected at each of its calls: a failed
            # probe must never turn the refusal into a truncation of the source
            if label in ("dotslash", "symlink", "hardlink", "tree-hardlinked", "tree-symlinked", "dir-via-symlink", "among-valid", "backup-alias", "tree-symlinked-dir-backup"):
                calls = [e for e in r.trace if "/.sup" not in e["p1"] and e["sys"] not in
                         ("close", "exit_group", "clone3", "clone", "umask") and not xcp.is_mutating(e)]
                seen = {}
                pts = []
                for e in calls:
                    key = (e["sys"], e["p1"])
                    seen[key] = seen.get(key, 0) + 1
                    pts.append((e["sys"], e["p1"], seen[key]))
                if quick:
                    pts = [p for i, p in enumerate(pts) if p[0] in ("statx", "newfstatat") or i % 3 == 0]
                for i, (sysn, path, nth) in enumerate(pts):
                    shutil.rmtree(d, ignore_errors=True)
                    os.makedirs(d)
                    alias_world(d)
                    before = src_snapshot(d, [])
                    errno = [5, 13, 24][i % 3]
                    rf = xcp.run_supervised(sup, argv, d, d, rules=[("fail", errno, 0, sysn, nth, "=" + path)], tag="af", timeout_ms=20000)
                    after = src_snapshot(d, [])
                    out.case(("alias-fault", label, driver, sysn, path[len(d):], nth), True)
                    out.count("alias_fault_points")
                    why = cmp_snap(before, after)
                    if why and "appeared" in why:
                        # a NEW entry below the destination argument is not a change to a source or bystander
                        # (a failed is_dir() probe of the destination changes the mapping: C04's finding F-04b)
                        destarg = os.path.normpath(os.path.join(d, tail[-1]))
                        new = [p for p in after if p not in before]
                        if all(os.path.normpath(os.path.join(d, os.fsdecode(p))).startswith(destarg) for p in new):
                            b2 = {p: e for p, e in after.items() if p in before}
                            why = cmp_snap(before, b2)
                    if why:
                        out.violation("self-copy (%s) with errno %d injected at %s #%d on %s: %s"
                                      % (label, errno, sysn, nth, path[len(d):], why),
                                      dict(rep, point=(sysn, path, nth, errno)))
            shutil.rmtree(d, ignore_errors=True)
    # ---- (b)+(c) kill points and faults
    minputs, mobs = [], []
    for kind in ("overwrite-backup", "tree", "tree-overwrite"):
        for driver in ("parfile", "parblock"):
            d = os.path.join(d0, "%s_%s" % (kind, driver))

            def setup():
                shutil.rmtree(d, ignore_errors=True)
                os.makedirs(d)
                return world(d, kind)
            tail, destroots = setup()
            argv = [ctx.bins["xcp"], "--driver", driver, "-w", "1", "--block-size", "16KB", "--ownership", "--fsync"] + tail
            excl = [os.fsencode(x) for x in destroots]
            before = src_snapshot(d, excl)
            ref = xcp.run_supervised(sup, argv, d, d, tag="ref")
            out.case(("ref", kind, driver), True)
            if ref.exit != 0:
                out.violation("reference run failed", dict(argv=argv[1:], stderr=ref.stderr[-300:]))
                continue
            # trace oracle on the reference run: only mapped destination paths (or their backups) are mutated
            dabs = [os.path.join(d, x) for x in destroots]
            for e in ref.trace:
                if "/.sup" in e["p1"]:
                    continue
                if xcp.is_mutating(e):
                    for p in xcp.mutation_paths(e):
                        if not any(norm(p) == x or norm(p).startswith(x + "/") for x in dabs):
                            out.violation("mutating call %s on %s, which is not a mapped destination path" % (e["sys"], p),
                                          dict(argv=argv[1:], event=e))
                if e["sys"] in ("openat", "open") and not any(norm(e["p1"]).startswith(x) for x in dabs):
                    flags = e["a"][2] if e["sys"] == "openat" else e["a"][1]
                    if flags & (os.O_WRONLY | os.O_RDWR | os.O_TRUNC | os.O_CREAT | os.O_APPEND):
                        out.violation("a source/bystander was opened for writing: %s flags %o" % (e["p1"], flags),
                                      dict(argv=argv[1:], event=e))
            # R2: per destination file, the mutating action sequence vs the model
            for e in ref.trace:
                if e["sys"] == "openat" and (e["a"][2] & os.O_CREAT) and e.get("ret", -1) >= 0:
                    path = e["p1"]
                    codes = xcp.mut_codes(ref, path)
                    srcp = None
                    for x in ref.trace:
                        if x["sys"] == "copy_file_range" and x["p2"] == path:
                            srcp = x["p1"]
                            break
                    st_len = os.path.getsize(path)
                    renamed = any(x["sys"].startswith("rename") and x["p1"] == path for x in ref.trace)
                    nx = len(os.listxattr(srcp)) if srcp else 0
                    minputs.append([0, 0, 1, 1, 1 if renamed else 0, 0, 1 if renamed else 0, st_len, 0, 1,
                                    1 if st_len > 0 else 0, nx])
                    mobs.append((dict(kind=kind, driver=driver, file=path[len(d):]), codes, renamed))
            # enumerate points
            muts = [e for e in ref.trace if xcp.is_mutating(e) and "/.sup" not in e["p1"]]
            seen = {}
            points = []
            for e in muts:
                key = (e["sys"], e["p1"])
                seen[key] = seen.get(key, 0) + 1
                points.append((e["sys"], e["p1"], seen[key]))
            if quick:
                points = points[::2] if len(points) > 14 else points
            for (sysn, path, nth) in points:
                for act in ("kill", "killafter"):
                    setup()
                    before = src_snapshot(d, excl)
                    r = xcp.run_supervised(sup, argv, d, d, rules=[(act, 0, 0, sysn, nth, "=" + path)], tag="k")
                    after = src_snapshot(d, excl)
                    out.case(("kill", kind, driver, sysn, path[len(d):], nth, act), True)
                    out.count("kill_points")
                    why = cmp_snap(before, after)
                    if why:
                        out.violation("killed %s %s #%d on %s: %s" % (act, sysn, nth, path[len(d):], why),
                                      dict(argv=argv[1:], point=(act, sysn, path, nth)))
            # faults at every call (mutating or not) touching the sandbox
            allcalls = [e for e in ref.trace if "/.sup" not in e["p1"] and e["sys"] not in ("close", "exit_group", "clone3", "clone", "umask")]
            seen = {}
            fpoints = []
            for e in allcalls:
                key = (e["sys"], e["p1"])
                seen[key] = seen.get(key, 0) + 1
                fpoints.append((e["sys"], e["p1"], seen[key]))
            step = 4 if quick else 1
            for i, (sysn, path, nth) in enumerate(fpoints[::step]):
                errno = [5, 28, 13, 24, 30, 1][i % 6]
                setup()
                before = src_snapshot(d, excl)
                r = xcp.run_supervised(sup, argv, d, d, rules=[("fail", errno, 0, sysn, nth, "=" + path)], tag="f", timeout_ms=20000)
                after = src_snapshot(d, excl)
                out.case(("fault", kind, driver, sysn, path[len(d):], nth, errno), True)
                out.count("fault_points")
                why = cmp_snap(before, after)
                if why:
                    out.violation("errno %d injected at %s #%d on %s: %s" % (errno, sysn, nth, path[len(d):], why),
                                  dict(argv=argv[1:], point=(sysn, path, nth, errno)))
                if r.meta.get("timeout"):
                    out.violation("xcp hung after an injected fault", dict(argv=argv[1:], point=(sysn, path, nth, errno)))
            shutil.rmtree(d, ignore_errors=True)
    # ---- (d) special files reached through an alias: dest/src/sub is a symlink to src/sub, which holds a FIFO, a socket,
    #      a character device and a regular file: the mapped target of each IS the source node; nothing may be unlinked
    import socket as _socket
    import stat as _stat
    for driver in ("parfile", "parblock"):
        for which in ("fifo", "sock", "chr", "all"):
            for extra in ([], ["-w", "1"], ["--backup", "numbered"]):
                if quick and extra and which != "all":
                    continue
                d = os.path.join(d0, "sp_%s_%s_%d" % (driver, which, len(extra)))
                os.makedirs(os.path.join(d, "src", "sub"))
                os.makedirs(os.path.join(d, "dest", "src"))
                os.symlink("../../src/sub", os.path.join(d, "dest", "src", "sub"))
                sub = os.path.join(d, "src", "sub")
                if which in ("fifo", "all"):
                    os.mkfifo(os.path.join(sub, "p"), 0o640)
                if which in ("sock", "all"):
                    sk = _socket.socket(_socket.AF_UNIX)
                    cwd = os.getcwd()
                    try:
                        os.chdir(sub)
                        sk.bind("s")
                    finally:
                        os.chdir(cwd)
                        sk.close()
                if which in ("chr", "all"):
                    try:
                        os.mknod(os.path.join(sub, "c"), 0o600 | _stat.S_IFCHR, os.makedev(1, 3))
                    except OSError:
                        pass
                open(os.path.join(d, "src", "top.txt"), "wb").write(b"top")
                inos = {n: os.lstat(os.path.join(sub, n)).st_ino for n in os.listdir(sub)}
                before = src_snapshot(d, [])
                argv = [ctx.bins["xcp"], "-r", "--driver", driver] + extra + ["src", "dest"]
                r = xcp.run_supervised(sup, argv, d, d, tag="s", timeout_ms=20000)
                after = src_snapshot(d, [b"dest"])
                out.case(("special-alias", driver, which, tuple(extra)), True)
                out.count("special_file_aliases")
                rep = dict(argv=argv[1:], layout="dest/src/sub -> ../../src/sub holding %s" % sorted(inos), exit=r.exit, stderr=r.stderr[-300:])
                why = cmp_snap({p: e for p, e in before.items() if not p.startswith(b"dest")}, after)
                if not why:
                    for n, ino in inos.items():
                        try:
                            if os.lstat(os.path.join(sub, n)).st_ino != ino:
                                why = "source node src/sub/%s was replaced (inode %d -> %d)" % (n, ino, os.lstat(os.path.join(sub, n)).st_ino)
                        except OSError:
                            why = "source node src/sub/%s was removed" % n
                if why:
                    out.violation("special file whose target is itself through a symlinked directory: %s (exit %d)" % (why, r.exit), rep)
                if r.exit == 0:
                    out.violation("a copy of special files onto themselves through an alias exited 0", rep)
                shutil.rmtree(d, ignore_errors=True)
    # ---- (e) a DANGLING symbolic link in the destination (left by an earlier copy of a tree that had the link) where the
    #      source now has a regular file: nothing may be created where the link points (a bystander location)
    for driver in ("parfile", "parblock"):
        for tgt in ("abs-outside", "rel-outside", "rel-inside"):
            for extra in ([], ["--backup", "numbered"], ["-n"]):
                if quick and extra and tgt != "abs-outside":
                    continue
                d = os.path.join(d0, "dg_%s_%s_%d" % (driver, tgt, len(extra)))
                os.makedirs(os.path.join(d, "src", "app"))
                os.makedirs(os.path.join(d, "dst", "app"))
                os.makedirs(os.path.join(d, "outside"))
                open(os.path.join(d, "src", "app", "conf"), "wb").write(b"now a regular file\n")
                open(os.path.join(d, "src", "app", "other"), "wb").write(b"other")
                link = {"abs-outside": os.path.join(d, "outside", "created.txt"), "rel-outside": "../../outside/created.txt",
                        "rel-inside": "../made-here.txt"}[tgt]
                os.symlink(link, os.path.join(d, "dst", "app", "conf"))
                before = src_snapshot(d, [b"dst"])
                argv = [ctx.bins["xcp"], "-r", "-T", "--driver", driver] + extra + ["src", "dst"]
                r = xcp.run_supervised(sup, argv, d, d, tag="g", timeout_ms=20000)
                after = src_snapshot(d, [b"dst"])
                out.case(("dangling-dest-link", driver, tgt, tuple(extra)), True)
                out.count("dangling_destination_links")
                rep = dict(argv=argv[1:], layout="dst/app/conf -> %s (dangling); src/app/conf is a regular file" % link, exit=r.exit,
                           stderr=r.stderr[-300:])
                why = cmp_snap(before, after)
                if why:
                    out.violation("copy over a dangling destination link: %s (exit %d)" % (why, r.exit), rep)
                elif os.path.lexists(os.path.join(d, "dst", "made-here.txt")) and os.path.islink(os.path.join(d, "dst", "app", "conf")):
                    out.violation("copy over a dangling destination link created the link's target instead of the entry (exit %d)" % r.exit, rep)
                elif r.exit == 0 and os.path.islink(os.path.join(d, "dst", "app", "conf")):
                    out.violation("exit 0 but dst/app/conf is still a symbolic link (the source has a regular file)", rep)
                shutil.rmtree(d, ignore_errors=True)
    # ---- (f) an alias that comes into being DURING the run: the operand is a symbolic link to a directory (copied as a
    #      link, no -L), whose entries the walk then visits: the run itself creates dst/cur -> real, after which dst/cur/f
    #      IS real/f.  Whatever the order in which walker and workers get to run (the link's creation is held back so that
    #      the walker is far ahead; random holds), no file below `real` may be touched
    for driver in ("parfile", "parblock"):
        for linktext in ("abs", "rel"):
            for (w, hold_link) in ((1, True), (4, True), (2, False)):
                d = os.path.join(d0, "dyn_%s_%s_%d_%d" % (driver, linktext, w, hold_link))
                os.makedirs(os.path.join(d, "real", "in"))
                os.makedirs(os.path.join(d, "dst"))
                for i in range(6):
                    open(os.path.join(d, "real", "f%d" % i), "wb").write(b"precious %d\n" % i * 50)
                open(os.path.join(d, "real", "in", "g"), "wb").write(b"nested precious\n" * 30)
                open(os.path.join(d, "bystander"), "wb").write(b"by")
                os.symlink(os.path.join(d, "real") if linktext == "abs" else "real", os.path.join(d, "cur"))
                before = src_snapshot(d, [b"dst"])
                argv = [ctx.bins["xcp"], "-r", "--driver", driver, "-w", str(w), "cur", "dst"]
                rules = [("hold", 250, 0, "symlink", 0, "*"), ("hold", 250, 0, "symlinkat", 0, "*")] if hold_link else []
                r = xcp.run_supervised(sup, argv, d, d, rules=rules, tag="y", timeout_ms=30000, seed=rng.randrange(1 << 30),
                                       hold_permille=0 if hold_link else 300, hold_maxms=5)
                after = src_snapshot(d, [b"dst"])
                out.case(("alias-created-by-the-run", driver, linktext, w, hold_link), True)
                out.count("alias_created_during_run")
                why = cmp_snap(before, after)
                if why:
                    out.violation("operand `cur` is a link to a directory; the run created dst/cur and then wrote through it: %s (exit %d)"
                                  % (why, r.exit), dict(argv=argv[1:], rules=rules, exit=r.exit, stderr=r.stderr[-300:]))
                shutil.rmtree(d, ignore_errors=True)
    if ctx.model_ok and minputs:
        res = core.run_model("run_copy_actions", minputs, shard=20, tag="c03")
        for (rep, codes, renamed), mo in zip(mobs, res):
            if mo[0] != 1 or mo[1:] != codes:
                out.corr("R2-copy-op-footprint", rep, mo, codes)
    out.sample(dict(alias_labels=[a[0] for a in ALIAS][:6]))
    if mobs:
        out.sample(dict(footprint=mobs[0][0], mutating_codes=mobs[0][1]))
