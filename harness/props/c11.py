"""C11 — holes stay holes (which ranges are written is proved; allocation is observed)."""
import os

import datapath
import fsutil
from datapath import Case

B = 4096
MiB = 1 << 20


def gen(ctx):
    rng = ctx.rng
    quick = ctx.tier == "quick"
    cases = []
    lays = []
    # (size, data ranges): holes of at least 1 MiB
    lays.append((4 * MiB, [(0, B)]))                                         # trailing hole
    lays.append((4 * MiB + 123, [(4 * MiB, 4 * MiB + 123)]))                 # leading hole, odd tail
    lays.append((6 * MiB, [(0, 2 * B), (2 * MiB, 2 * MiB + 3 * B), (5 * MiB, 5 * MiB + B)]))   # interleaved
    lays.append((8 * MiB, []))                                               # entirely empty
    lays.append((3 * MiB + 5, [(MiB, MiB + B), (2 * MiB + B, 2 * MiB + 2 * B)]))
    n = 40
    lays.append((n * MiB + B, [(i * MiB, i * MiB + B) for i in range(n)] + [(n * MiB, n * MiB + B)]))  # > 32 extents
    lays.append((2 * MiB + 2 * B, [(0, B), (B + 1 * MiB, 2 * B + MiB), (2 * MiB + B, 2 * MiB + 2 * B)]))
    # denser sparse files: 1/8, 1/4 and 1/2 of the apparent size allocated (still sparse by st_blocks)
    lays.append((16 * MiB, [(i * 8 * MiB, i * 8 * MiB + MiB) for i in range(2)]))          # 1/8
    lays.append((8 * MiB, [(i * 4 * MiB + MiB, i * 4 * MiB + 2 * MiB) for i in range(2)]))  # 1/4
    lays.append((6 * MiB, [(0, MiB), (2 * MiB, 3 * MiB), (4 * MiB, 5 * MiB)]))              # 1/2
    lays.append((3 * MiB, [(0, 2 * MiB - B)]))                                               # 2/3, one hole at the end
    if not quick:
        lays.append((256 * MiB, [(0, B), (128 * MiB, 128 * MiB + 5 * B), (256 * MiB - B, 256 * MiB)]))
        for _ in range(40):
            nseg = rng.choice([1, 2, 3, 5, 9, 35, 70])
            pos = rng.choice([0, MiB, 3 * MiB])
            segs = []
            for _i in range(nseg):
                ln = B * rng.randrange(1, 6)
                segs.append((pos, pos + ln))
                pos += ln + MiB * rng.randrange(1, 4)
            lays.append((pos if rng.random() < 0.5 else segs[-1][1], segs))
    for (size, data) in lays:
        for driver in ("parfile", "parblock"):
            bss = [B, 5 * B + 1, "noprogress"] if quick else [1000, B, 5 * B + 1, MiB, 3 * MiB, "noprogress"]
            for bs in bss:
                if quick and len(data) > 8 and bs != 5 * B + 1:
                    continue
                prior = rng.choice(["absent", "absent", "longer_dense"]) if size <= 8 * MiB else "absent"
                cases.append(Case(size, data=data, driver=driver, workers=rng.choice([1, 2, 4, 16]), bs=bs,
                                  reflink=rng.choice(["auto", "never"]), prior=prior))
    # overwriting a fully allocated destination, both drivers
    for driver in ("parfile", "parblock"):
        cases.append(Case(4 * MiB, data=[(MiB, MiB + B)], driver=driver, workers=2, bs=MiB, prior="longer_dense"))
    return cases


def oracle(case, o, m):
    if o.exit != 0 or not o.dst_exists:
        return None
    nranges = max(1, len(case.data))
    slack_blocks = (8 * nranges + 16) * (B // 512)     # one fs block rounding per data range + extent-tree overhead
    if o.dst_blocks > o.src_blocks + slack_blocks:
        return ("destination allocates %d bytes for a source allocating %d (apparent size %d, %d data ranges): holes were "
                "materialised" % (o.dst_blocks * 512, o.src_blocks * 512, case.size, len(case.data)), None)
    # SEEK_DATA map of the destination must lie inside the source's (4 KiB rounding)
    _, dlay = fsutil.seek_layout(o.dst)
    slay = o.seek_layout
    def inside(s, e):
        return any(ss - B < s + 1 and e - 1 < ee + B for ss, ee in slay)
    for s, e in dlay:
        # every 4K page of destination data must intersect (rounded) source data
        p = s
        while p < e:
            if not any(ss - B <= p < ee + B for ss, ee in slay):
                return ("destination has data at offset %d where the source has a hole" % p, None)
            p += B
    if not datapath.files_equal(o.src, o.dst):
        return ("sparse copy differs from source at byte %s" % datapath.first_diff(o.src, o.dst), None)
    return None


def nontrivial(case, o):
    return o.sparse


def run(ctx, out):
    out.rule = ("sparse ext4 files with holes >= 1 MiB (leading, trailing, interleaved, empty, 41 extents = two FIEMAP pages), "
                "block sizes below/above segment sizes, both drivers, workers 1..16, fresh and fully allocated prior "
                "destinations; non-trivial = the source is classified sparse by st_blocks; distinct = distinct case tuple")
    out.assumptions.append("C11: block allocation by ext4 for the written ranges is observed (st_blocks), not proved")
    datapath.run_cases(ctx, out, gen(ctx), "C11", oracle, nontrivial, batch=32)
