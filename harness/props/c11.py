"""C11 — holes stay holes (which ranges are written is proved; allocation is observed)."""
import os
import shutil

import core
import datapath
import xcp
import fsutil
from datapath import Case

B = 4096
MiB = 1 << 20


def gen(ctx):
    rng = ctx.rng
    quick = ctx.tier == "quick"
    cases = []
    lays = []
    # (size, data ranges): holes of at least 1 MiB
    lays.append((4 * MiB, [(0, B)]))                                         # trailing hole
    lays.append((4 * MiB + 123, [(4 * MiB, 4 * MiB + 123)]))                 # leading hole, odd tail
    lays.append((6 * MiB, [(0, 2 * B), (2 * MiB, 2 * MiB + 3 * B), (5 * MiB, 5 * MiB + B)]))   # interleaved
    lays.append((8 * MiB, []))                                               # entirely empty
    lays.append((3 * MiB + 5, [(MiB, MiB + B), (2 * MiB + B, 2 * MiB + 2 * B)]))
    n = 40
    lays.append((n * MiB + B, [(i * MiB, i * MiB + B) for i in range(n)] + [(n * MiB, n * MiB + B)]))  # > 32 extents
    lays.append((2 * MiB + 2 * B, [(0, B), (B + 1 * MiB, 2 * B + MiB), (2 * MiB + B, 2 * MiB + 2 * B)]))
    # denser sparse files: 1/8, 1/4 and 1/2 of the apparent size allocated (still sparse by st_blocks)
    lays.append((16 * MiB, [(i * 8 * MiB, i * 8 * MiB + MiB) for i in range(2)]))          # 1/8
    lays.append((8 * MiB, [(i * 4 * MiB + MiB, i * 4 * MiB + 2 * MiB) for i in range(2)]))  # 1/4
    lays.append((6 * MiB, [(0, MiB), (2 * MiB, 3 * MiB), (4 * MiB, 5 * MiB)]))              # 1/2
    lays.append((3 * MiB, [(0, 2 * MiB - B)]))                                               # 2/3, one hole at the end
    if not quick:
        lays.append((256 * MiB, [(0, B), (128 * MiB, 128 * MiB + 5 * B), (256 * MiB - B, 256 * MiB)]))
        for _ in range(40):
            nseg = rng.choice([1, 2, 3, 5, 9, 35, 70])
            pos = rng.choice([0, MiB, 3 * MiB])
            segs = []
            for _i in range(nseg):
                ln = B * rng.randrange(1, 6)
                segs.append((pos, pos + ln))
                pos += ln + MiB * rng.randrange(1, 4)
            lays.append((pos if rng.random() < 0.5 else segs[-1][1], segs))
    for (size, data) in lays:
        for driver in ("parfile", "parblock"):
            bss = [B, 5 * B + 1, "noprogress"] if quick else [1000, B, 5 * B + 1, MiB, 3 * MiB, "noprogress"]
            for bs in bss:
                if quick and len(data) > 8 and bs != 5 * B + 1:
                    continue
                prior = rng.choice(["absent", "absent", "longer_dense", "same", "shorter"]) if size <= 8 * MiB else "absent"
                cases.append(Case(size, data=data, driver=driver, workers=rng.choice([1, 2, 4, 16]), bs=bs,
                                  reflink=rng.choice(["auto", "never"]), prior=prior))
    # options that say nothing about holes (durability, ownership, permissions, timestamps) on files of every density —
    # a hole stays a hole under each of them
    for (size, data) in lays[:11]:
        for driver in ("parfile", "parblock"):
            for flags in ([["--fsync"]] if quick else [["--fsync"], ["--ownership"], ["--no-perms", "--fsync"], ["--no-timestamps"]]):
                if quick and rng.random() < 0.35:
                    continue
                cases.append(Case(size, data=data, driver=driver, workers=rng.choice([1, 2, 4]), bs=rng.choice([B, MiB, "noprogress"]),
                                  reflink=rng.choice(["auto", "never"]), prior=rng.choice(["absent", "absent", "same"]), flags=flags,
                                  label="neutral option"))
    # sources whose st_blocks counts blocks that hold NO file data: the extent-tree blocks of a file with hundreds of extents,
    # the separate block of a large extended attribute — `allocated` is not `data`
    many = [(i * 64 * B, i * 64 * B + B) for i in range(345)]
    for driver in ("parfile", "parblock"):
        c = Case(10 * MiB, data=[(i * MiB, i * MiB + 2 * B) for i in range(8)], driver=driver, workers=rng.choice([1, 2, 4]), bs=rng.choice([B, MiB]),
                 reflink="never", prior=rng.choice(["absent", "same"]), label="8 extents and a 2 KiB extended attribute")
        c.xattr = {"user.big": b"x" * 2048}
        cases.append(c)
        cases.append(Case(345 * 64 * B, data=many, driver=driver, workers=rng.choice([1, 4]), bs=rng.choice([B, MiB]), reflink="never",
                          label="345 extents"))
        c = Case(345 * 64 * B, data=many, driver=driver, workers=2, bs=MiB, reflink="never", label="345 extents and an extended attribute")
        c.xattr = {"user.big": b"y" * 3000, "user.small": b"z"}
        cases.append(c)
    # overwriting a fully allocated destination (longer, and of EXACTLY the source's length: a refreshed image), both drivers
    for driver in ("parfile", "parblock"):
        cases.append(Case(4 * MiB, data=[(MiB, MiB + B)], driver=driver, workers=2, bs=MiB, prior="longer_dense"))
        cases.append(Case(4 * MiB, data=[(MiB, MiB + B)], driver=driver, workers=2, bs=MiB, prior="same"))
        cases.append(Case(6 * MiB + 123, data=[(0, 2 * B), (6 * MiB, 6 * MiB + 123)], driver=driver, workers=4, bs="noprogress", prior="same"))
    return cases


def oracle(case, o, m):
    if o.exit != 0 or not o.dst_exists:
        return None
    nranges = max(1, len(case.data))
    slack_blocks = (8 * nranges + 16) * (B // 512)     # one fs block rounding per data range + extent-tree overhead
    if o.dst_blocks > o.src_blocks + slack_blocks:
        return ("destination allocates %d bytes for a source allocating %d (apparent size %d, %d data ranges): holes were "
                "materialised" % (o.dst_blocks * 512, o.src_blocks * 512, case.size, len(case.data)), None)
    # SEEK_DATA map of the destination must lie inside the source's (4 KiB rounding)
    _, dlay = fsutil.seek_layout(o.dst)
    slay = o.seek_layout
    def inside(s, e):
        return any(ss - B < s + 1 and e - 1 < ee + B for ss, ee in slay)
    for s, e in dlay:
        # every 4K page of destination data must intersect (rounded) source data
        p = s
        while p < e:
            if not any(ss - B <= p < ee + B for ss, ee in slay):
                return ("destination has data at offset %d where the source has a hole" % p, None)
            p += B
    if not datapath.files_equal(o.src, o.dst):
        return ("sparse copy differs from source at byte %s" % datapath.first_diff(o.src, o.dst), None)
    return None


def nontrivial(case, o):
    return o.sparse


def run(ctx, out):
    out.rule = ("sparse ext4 files with holes >= 1 MiB (leading, trailing, interleaved, empty, 41 extents = two FIEMAP pages), "
                "block sizes below/above segment sizes, both drivers, workers 1..16, fresh and fully allocated prior "
                "destinations (longer, shorter, and of exactly the source's length), with --fsync / --ownership / --no-perms / --no-timestamps on every density, sources with hundreds of extents and with large extended attributes (metadata blocks counted by st_blocks); plus runs over FIVE sparse files at once (tree and multi-source) in which FIEMAP / FICLONE / "
                "copy_file_range is refused for one of them: the others must stay sparse; non-trivial = the source is classified "
                "sparse by st_blocks; distinct = distinct case tuple")
    out.assumptions.append("C11: block allocation by ext4 for the written ranges is observed (st_blocks), not proved")
    datapath.run_cases(ctx, out, gen(ctx), "C11", oracle, nontrivial, batch=32)
    run_many(ctx, out)


def run_many(ctx, out):
    """Several sparse files in ONE invocation (tree and multi-source forms): what one file's extent map / clone /
    kernel-copy call answered must not change how the OTHERS are copied.  The supervisor refuses FIEMAP (EOPNOTSUPP),
    FICLONE (EOPNOTSUPP / EXDEV) or copy_file_range (EXDEV) for ONE chosen file; every other file must still come out
    sparse and identical; the chosen one must be identical (it may be materialised: no hole detection for it)."""
    rng = ctx.rng
    quick = ctx.tier == "quick"
    sup = core.build_sup()
    d0 = ctx.work.fresh("c11many")
    shapes = [(4 * MiB, [(0, B)]), (6 * MiB, [(0, 2 * B), (2 * MiB, 2 * MiB + 3 * B), (5 * MiB, 5 * MiB + B)]),
              (8 * MiB, []), (3 * MiB + 5, [(MiB, MiB + B), (2 * MiB + B, 2 * MiB + 2 * B)]), (5 * MiB, [(4 * MiB, 5 * MiB)])]
    k = 0
    for driver in ("parblock", "parfile"):
        for form in ("tree", "multi"):
            for what in ("fiemap", "ficlone-EOPNOTSUPP", "ficlone-EXDEV", "cfr-EXDEV", "none"):
                for victim in ((0, 1, 3) if not quick else (0, rng.choice([1, 2, 3]))):
                    if quick and what in ("ficlone-EXDEV", "none") and victim != 0:
                        continue
                    k += 1
                    d = os.path.join(d0, "m%d" % k)
                    os.makedirs(os.path.join(d, "src"))
                    names = ["a0", "b1", "c2", "d3", "e4"]
                    for i, nm in enumerate(names):
                        size, data = shapes[(i + k) % len(shapes)]
                        fsutil.make_file(os.path.join(d, "src", nm), size, data, tag=k * 8 + i + 1, sync=True)
                    vpath = os.path.join(d, "src", names[victim])
                    rules = {"fiemap": [("fail", 95, 0, "ioctl", 0, "=" + vpath)],
                             "ficlone-EOPNOTSUPP": [("fail", 95, 0, "ioctl", 0, "=" + os.path.join(d, "dst", names[victim]))],
                             "ficlone-EXDEV": [("fail", 18, 0, "ioctl", 0, "=" + os.path.join(d, "dst", names[victim]))],
                             "cfr-EXDEV": [("fail", 18, 0, "copy_file_range", 0, "=" + vpath)],
                             "none": []}[what]
                    w = rng.choice([1, 2, 4])
                    bs = rng.choice(["4096", "65536", "1MB"])
                    if form == "tree":
                        argv = [ctx.bins["xcp"], "-r", "-T", "--driver", driver, "-w", str(w), "--block-size", bs, "src", "dst"]
                    else:
                        os.makedirs(os.path.join(d, "dst"))
                        argv = [ctx.bins["xcp"], "--driver", driver, "-w", str(w), "--block-size", bs] + \
                            [os.path.join("src", nm) for nm in names] + ["dst"]
                    r = xcp.run_supervised(sup, argv, d, d, rules=rules, tag="m", timeout_ms=60000)
                    fired = any(e.get("inj") for e in r.trace)
                    out.case(("many", driver, form, what, victim, w, bs), nontrivial=True)
                    out.count("many_" + what + ("" if fired or what == "none" else "_not_reached"))
                    rep = dict(argv=argv[1:], rules=rules, refused_for=names[victim], what=what, exit=r.exit, stderr=r.stderr[-300:])
                    if r.exit != 0:
                        out.violation("copy of five sparse files failed (exit %d) with %s refused for one of them" % (r.exit, what), rep)
                    else:
                        for i, nm in enumerate(names):
                            sp, dp = os.path.join(d, "src", nm), os.path.join(d, "dst", nm)
                            if not os.path.exists(dp) or not datapath.files_equal(sp, dp):
                                out.violation("file %s differs / is missing after exit 0 (%s refused for %s)" % (nm, what, names[victim]), rep)
                                break
                            if i == victim and what == "fiemap":
                                continue      # no hole detection for this one
                            sb, db = os.stat(sp).st_blocks, os.stat(dp).st_blocks
                            nr = max(1, len(shapes[(i + k) % len(shapes)][1]))
                            if db > sb + (8 * nr + 16) * (B // 512):
                                out.violation("holes of %s were materialised (%d bytes allocated for %d in the source) after %s was "
                                              "refused for ANOTHER file (%s) of the same run" % (nm, db * 512, sb * 512, what, names[victim]), rep)
                                break
                    shutil.rmtree(d, ignore_errors=True)
