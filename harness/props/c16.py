"""C16 — invalid invocations are rejected with no side effects."""
import os
import shutil

import core
import treecase
import xcp

MSG = {1: "--force and --noclobber", 2: "Insufficient arguments", 3: "attern", 4: "No source files found",
       5: "Cannot copy a directory to a file", 6: "Multiple sources and destination is not a directory",
       7: "Source does not exist", 8: "Source is directory and --recursive not specified",
       9: ("Cannot copy a directory into itself", "Source is same as destination"),
       10: "Failed to find source directory name", 11: "Multiple sources map to the same destination"}


def setup(d):
    """a small fixed world: files a b c, dirs d1 (with content) d2 (empty), dest dirs, links"""
    w = lambda p, c=b"x": open(os.path.join(d, p), "wb").write(c)
    w("a", b"content of a\n")
    w("b", b"content of b\n" * 3)
    w("c", b"")
    os.makedirs(os.path.join(d, "d1", "sub"))
    w("d1/f1", b"f1")
    w("d1/sub/f2", b"f2" * 100)
    os.mkdir(os.path.join(d, "d2"))
    os.mkdir(os.path.join(d, "out"))                 # existing empty destination directory
    os.makedirs(os.path.join(d, "outp", "d1"))       # populated destination directory
    w("outp/keep", b"keep me")
    w("outp/d1/old", b"old")
    os.mkdir(os.path.join(d, "outf"))                # destination dir where d1 is a FILE
    w("outf/d1", b"i am a file")
    w("file_dest", b"existing file")
    import socket as _socket
    import stat as _stat
    for dd in ("outfifo", "outsock", "outchr", "outlink"):
        os.mkdir(os.path.join(d, dd))                # destination dirs where d1 is a FIFO / socket / device / link to a file
    os.mkfifo(os.path.join(d, "outfifo", "d1"))
    sk = _socket.socket(_socket.AF_UNIX)
    cwd = os.getcwd()
    try:
        os.chdir(os.path.join(d, "outsock"))
        sk.bind("d1")
    finally:
        os.chdir(cwd)
        sk.close()
    try:
        os.mknod(os.path.join(d, "outchr", "d1"), 0o600 | _stat.S_IFCHR, os.makedev(1, 3))
    except OSError:
        os.mkfifo(os.path.join(d, "outchr", "d1"))
    os.symlink("../file_dest", os.path.join(d, "outlink", "d1"))
    os.symlink("a", os.path.join(d, "link_to_a"))
    os.link(os.path.join(d, "a"), os.path.join(d, "hard_a"))
    os.symlink("d1", os.path.join(d, "link_to_d1"))
    os.symlink("nowhere", os.path.join(d, "dangling"))
    os.symlink("loop2", os.path.join(d, "loop1"))
    os.symlink("loop1", os.path.join(d, "loop2"))
    os.makedirs(os.path.join(d, "alt", "d1"))        # other entries with the same last component as a / d1
    w("alt/a", b"another a\n")
    w("alt/d1/g", b"g")
    os.symlink("/etc/hostname", os.path.join(d, "alt", "b"))


def gen(rng, quick):
    """(label, args, expect_invalid) — args exclude the binary and --driver"""
    cs = []
    V = ["a", "b", "c"]
    def around(bad, pos, extra=()):
        l = list(V[:2])
        l.insert(pos, bad)
        return list(extra) + l
    # 1. no source
    cs.append(("no-args", [], True))
    cs.append(("only-dest", ["out"], True))
    cs.append(("only-dest-r", ["-r", "out"], True))
    cs.append(("tdir-no-source", ["--target-directory", "out"], True))
    # 2. a missing source among valid ones, every position, several destination states
    for pos in (0, 1, 2):
        for dest in ("out", "outp", "newdest", "file_dest"):
            cs.append(("missing@%d->%s" % (pos, dest), around("missing", pos) + [dest], True))
        cs.append(("missing@%d-glob" % pos, ["--glob"] + around("missing", pos) + ["out"], True))
        cs.append(("missing-pattern@%d-glob" % pos, ["--glob"] + around("zz*", pos) + ["out"], True))
        cs.append(("dangling@%d" % pos, around("dangling", pos) + ["out"], True))
    # a source that is missing in another way than ENOENT: below a regular file (ENOTDIR), through a link loop (ELOOP),
    # a component longer than NAME_MAX (ENAMETOOLONG) — still "a missing source even among valid ones"
    for pos in (0, 1, 2):
        for bad, lab in (("a/x", "enotdir"), ("loop1/x", "eloop"), ("n" * 300, "enametoolong"), ("loop1", "eloop-direct")):
            for dest in (("out", "newdest") if pos != 2 else ("out",)):
                cs.append(("missing-%s@%d->%s" % (lab, pos, dest), around(bad, pos) + [dest], True))
    # MANY missing sources (a status that counts them must not wrap to 0 at 256), alone and among valid ones
    for n in (255, 256, 512):
        cs.append(("missing-x%d" % n, ["nosuch%03d" % i for i in range(n)] + ["out"], True))
    cs.append(("missing-x256-among-valid", ["a"] + ["nosuch%03d" % i for i in range(256)] + ["b", "out"], True))
    cs.append(("missing-single", ["missing", "out"], True))
    cs.append(("missing-single-new", ["missing", "newdest"], True))
    # 3. directory without --recursive
    for pos in (0, 1, 2):
        for dest in ("out", "outp"):
            cs.append(("dir-no-r@%d->%s" % (pos, dest), around("d1", pos) + [dest], True))
    # ... the same operands under --dereference: what an operand IS for the validation is what the walk will make of it — a
    # dangling link is a missing source, a link to a directory is a directory — wherever it stands among valid sources
    for pos in (0, 1, 2):
        cs.append(("dangling-L@%d" % pos, ["-L"] + around("dangling", pos) + ["out"], True))
        cs.append(("dangling-rL@%d" % pos, ["-r", "-L"] + around("dangling", pos) + ["outp"], True))
        cs.append(("dirlink-no-r-L@%d" % pos, ["-L"] + around("link_to_d1", pos) + ["out"], True))
        cs.append(("loop-L@%d" % pos, ["-r", "-L"] + around("loop1", pos) + ["out"], True))
    cs.append(("dirlink-no-r-L-single", ["-L", "link_to_d1", "newdest"], True))
    cs.append(("dir-no-r-single", ["d1", "newdest"], True))
    cs.append(("dirlink-no-r", ["link_to_d1", "newdest"], True))
    # 4. several sources, destination not a directory
    for dest in ("newdest", "file_dest", "dangling"):
        cs.append(("multi->%s" % dest, ["a", "b", dest], True))
        cs.append(("multi-r->%s" % dest, ["-r", "a", "d1", dest], True))
    # 5. a directory onto an existing file
    cs.append(("dir->file", ["-r", "d1", "file_dest"], True))
    cs.append(("dir->file-T", ["-r", "-T", "d1", "file_dest"], True))
    for pos in (0, 1, 2):
        cs.append(("dir->file-inside@%d" % pos, ["-r"] + around("d1", pos) + ["outf"], True))
    # 5b. ... where the existing non-directory is not a regular file: a FIFO, a socket, a character device, a link to a file
    for pos in (0, 1, 2):
        for dd in ("outfifo", "outsock", "outchr", "outlink"):
            if pos != 1 and dd in ("outsock", "outchr"):
                continue
            cs.append(("dir->%s-inside@%d" % (dd[3:], pos), ["-r"] + around("d1", pos) + [dd], True))
    cs.append(("dir->fifo-tdir", ["-r", "--target-directory", "outfifo", "a", "d1"], True))
    # 6. source identical to (mapped) destination
    cs.append(("same-text", ["a", "a"], True))
    cs.append(("same-dir-text", ["-r", "d1", "d1"], True))
    cs.append(("same-into-own-dir", ["a", "."], True))
    cs.append(("same-dotslash", ["a", "./a"], True))
    cs.append(("same-dotdot", ["a", "d1/../a"], True))
    cs.append(("same-symlink", ["a", "link_to_a"], True))
    cs.append(("same-hardlink", ["a", "hard_a"], True))
    cs.append(("same-T", ["-r", "-T", "d1", "./d1"], True))
    for pos in (0, 1, 2):
        l = ["d1/f1", "b"]
        l.insert(pos, "a")
        cs.append(("same-among-valid@%d" % pos, l + ["."], True))
    # 6b. several sources that map onto the same destination entry (cp: "will not overwrite just-created")
    cs.append(("dup-files", ["a", "alt/a", "out"], True))
    cs.append(("dup-files-rev", ["alt/a", "a", "outp"], True))
    cs.append(("dup-link-file", ["alt/b", "b", "out"], True))
    cs.append(("dup-dirs", ["-r", "d1", "alt/d1", "out"], True))
    cs.append(("dup-same-twice", ["a", "a", "out"], True))
    cs.append(("dup-spelling", ["a", "./a", "out"], True))
    cs.append(("dup-tdir", ["--target-directory", "out", "b", "alt/b"], True))
    cs.append(("dup-n", ["-n", "alt/b", "b", "out"], True))
    for pos in (0, 1, 2):
        l = ["a", "c"]
        l.insert(pos, "alt/a")
        cs.append(("dup-among-valid@%d" % pos, l + ["b", "out"], True))
    cs.append(("dup-glob", ["--glob", "a", "al?/a", "out"], True))
    # 7. contradictory / unknown option values
    cs.append(("n-and-f", ["-n", "-f", "a", "out"], True))
    cs.append(("n-and-f-long", ["--no-clobber", "--force", "-r", "d1", "out"], True))
    cs.append(("bad-reflink", ["--reflink", "sometimes", "a", "out"], True))
    cs.append(("bad-backup", ["--backup", "maybe", "a", "out"], True))
    cs.append(("bad-driver", ["--driver", "turbo", "a", "out"], True))
    cs.append(("bad-workers", ["-w", "many", "a", "out"], True))
    cs.append(("bad-blocksize", ["--block-size", "big", "a", "out"], True))
    # 8. malformed glob
    for pos in (0, 1, 2):
        cs.append(("bad-glob@%d" % pos, ["--glob"] + around("[", pos) + ["out"], True))
        cs.append(("bad-glob2@%d" % pos, ["--glob"] + around("a[", pos) + ["out"], True))
    # controls: valid invocations must proceed (and succeed)
    cs.append(("ok-file", ["a", "newdest"], False))
    cs.append(("ok-files", ["a", "b", "c", "out"], False))
    cs.append(("ok-dir", ["-r", "d1", "out"], False))
    cs.append(("ok-dir-new", ["-r", "d1", "newdest"], False))
    cs.append(("ok-glob", ["--glob", "[ab]", "out"], False))
    cs.append(("ok-mixed", ["-r", "a", "d1", "d2", "out"], False))
    cs.append(("ok-T", ["-r", "-T", "d1", "out"], False))
    cs.append(("ok-tdir", ["--target-directory", "out", "a", "b"], False))
    cs.append(("ok-overwrite-file", ["a", "file_dest"], False))
    cs.append(("ok-populated", ["-r", "d1", "outp"], False))
    return cs


def parse_args(args):
    o = dict(rec=0, notd=0, nc=0, force=0, glob=0, td=None, clap_bad=False)
    paths = []
    i = 0
    while i < len(args):
        a = args[i]
        if a in ("-r",):
            o["rec"] = 1
        elif a == "-T":
            o["notd"] = 1
        elif a in ("-L", "--dereference"):
            pass            # the validation block does not depend on it (the model's `exists` follows links either way)
        elif a in ("-n", "--no-clobber"):
            o["nc"] = 1
        elif a in ("-f", "--force"):
            o["force"] = 1
        elif a == "--glob":
            o["glob"] = 1
        elif a == "--target-directory":
            o["td"] = args[i + 1]
            i += 1
        elif a in ("--reflink", "--backup", "--driver", "-w", "--block-size"):
            o["clap_bad"] = True
            i += 1
        else:
            paths.append(a)
        i += 1
    return o, paths


def model_input(d, o, paths):
    import glob as pyglob
    ps = [os.fsencode(p) for p in paths]
    if o["td"] is not None:
        dest, pats = os.fsencode(o["td"]), ps
    elif ps:
        dest, pats = ps[-1], ps[:-1]
    else:
        dest, pats = b"", []
    oracle = []
    srcs = []
    if o["glob"]:
        for p in pats:
            s = os.fsdecode(p)
            # pattern validity as the glob crate sees it for our generated patterns: an unclosed '[' is an error
            if s.count("[") != s.count("]"):
                oracle.append(None)
                continue
            m = sorted(pyglob.glob(s, root_dir=d))
            if os.path.lexists(os.path.join(d, s)) and not m:
                m = [s]
            oracle.append([os.fsencode(x) for x in m])
            srcs += [os.fsencode(x) for x in m]
    else:
        srcs = pats
    table = {}
    def add(p):
        full = os.path.join(os.fsencode(d), p)
        try:
            st = os.stat(full)
            table[p] = (1, 1 if os.path.isdir(full) else 0, st.st_ino)
        except OSError:
            table[p] = (0, 0, 0)
    add(dest)
    os.chdir(d)
    try:
        for s in srcs:
            add(s)
            tb = treecase.target_base(dest, s, bool(o["notd"]))
            if tb is not None:
                add(tb)
    finally:
        os.chdir("/")
    enc = [o["rec"], o["notd"], o["nc"], o["force"], o["glob"], 0 if o["td"] is None else 1]
    td = os.fsencode(o["td"]) if o["td"] is not None else b""
    enc += [len(td)] + list(td)
    enc += [len(ps)]
    for p in ps:
        enc += [len(p)] + list(p)
    enc += [len(oracle)]
    for r in oracle:
        if r is None:
            enc += [0]
        else:
            enc += [1, len(r)]
            for x in r:
                enc += [len(x)] + list(x)
    enc += [len(table)]
    for p, (ex, isd, ino) in table.items():
        enc += [len(p)] + list(p) + [ex, isd, ino]
    return enc


def run(ctx, out):
    rng = ctx.rng
    quick = ctx.tier == "quick"
    out.rule = ("every rejection class of the property (no source, missing source / pattern without match, directory without -r (also through a link, with and without -L; dangling and looping link operands under -L), "
                "several sources to a non-directory, directory onto an existing file (also inside the destination), source "
                "identical to the mapped destination by spelling/alias/symlink/hard link, -n with -f, unknown option values, "
                "malformed glob) x position of the offending argument among valid ones x destination state x both drivers, "
                "plus valid controls; byte-for-byte snapshot of the sandbox before/after; non-trivial = invalid invocation "
                "with at least one valid source beside the offending one; distinct = (label, driver)")
    d0 = ctx.work.fresh("c16")
    cases = gen(rng, quick)
    minputs, obs = [], []
    for k, (label, args, invalid) in enumerate(cases):
        for driver in ("parfile", "parblock"):
            d = os.path.join(d0, "c%d%s" % (k, driver[3]))
            os.makedirs(d)
            setup(d)
            argv = [ctx.bins["xcp"]] + (["--driver", driver] if "--driver" not in args else []) + ["-w", "2"] + args
            if "-w" in args:
                argv = [ctx.bins["xcp"], "--driver", driver] + args
            before = xcp.snapshot(os.fsencode(d))
            bdirs = {p: os.lstat(os.path.join(os.fsencode(d), p)).st_mtime_ns for p, e in before.items() if e["kind"] == "dir"}
            r = xcp.run_plain(argv, d, timeout=60)
            after = xcp.snapshot(os.fsencode(d))
            adirs = {p: os.lstat(os.path.join(os.fsencode(d), p)).st_mtime_ns for p, e in after.items() if e["kind"] == "dir"}
            rep = dict(label=label, argv=argv[1:], exit=r.exit, stderr=r.stderr[-300:])
            nvalid = sum(1 for a in args if a in ("a", "b", "c", "d1/f1"))
            out.case((label, driver), nontrivial=invalid and nvalid >= 1)
            out.count("class_" + label.split("@")[0].split("->")[0])
            if invalid:
                if r.exit == 0:
                    out.violation("invalid invocation (%s) exited 0" % label, rep)
                else:
                    diff = xcp.snap_diff(before, after, ignore=("ino", "nlink"))
                    dirdiff = [p for p in bdirs if adirs.get(p) != bdirs[p]]
                    if diff or dirdiff:
                        what = diff[0][0] if diff else dirdiff[0]
                        out.violation("rejected invocation (%s, exit %d) changed the file system: %r" % (label, r.exit, what), rep)
            else:
                if r.exit != 0:
                    out.corr("R1-valid-control-failed", rep, "exit 0", r.exit)
            o, paths = parse_args(args)
            if not o["clap_bad"] and ctx.model_ok and not label.startswith("missing-x"):     # (hundreds of operands: run only)
                minputs.append(model_input(d, o, paths))
                obs.append((rep, r))
            shutil.rmtree(d, ignore_errors=True)
    if ctx.model_ok and minputs:
        res = core.run_model("run_validate", minputs, shard=20, tag="c16")
        for (rep, r), mo in zip(obs, res):
            code = mo[0]
            if code == 0:
                if r.exit != 0 and not any(s in r.stderr for s in ("Error during", "exists", "same file")):
                    out.corr("R1-validate: model proceeds, xcp rejected", rep, mo, r.exit)
                continue
            if r.exit == 0:
                out.corr("R1-validate: model rejects (code %d), xcp exit 0" % code, rep, mo, r.exit)
                continue
            want = MSG.get(code)
            wants = want if isinstance(want, tuple) else (want,)
            if not any(w in r.stderr for w in wants):
                out.corr("R1-validate-class: model code %d (%s), xcp said otherwise" % (code, wants[0]), rep, mo, r.stderr[-200:])
    out.sample(dict(label=cases[5][0], args=cases[5][1]))
    out.sample(dict(label=cases[30][0], args=cases[30][1]))
