"""C15 — reflink modes keep their contract."""
import os
import shutil

import core
import datapath
import fsutil
import xcp
from datapath import Case

B = 4096
UNSUP = dict(EOPNOTSUPP=95, EINVAL=22, EXDEV=18, ETXTBSY=26)
HARD = dict(EIO=5, EPERM=1, ENOSPC=28)


def gen(ctx):
    rng = ctx.rng
    quick = ctx.tier == "quick"
    cases = []
    shapes = [(0, None), (1, None), (3 * B + 9, None), (100000, None),
              (40 * B, [(i * B, (i + 1) * B) for i in range(0, 40, 2)])]
    for driver in ("parfile", "parblock"):
        for mode in ("never", "always", "auto"):
            for (size, data) in shapes:
                bs = rng.choice([B, 1000, "noprogress", 1 << 20])
                w = rng.choice([1, 2, 4])
                answers = [("real", [])]
                answers += [("unsup-" + n, [("fail", e, 0, "ioctl", 1, "{dst}")]) for n, e in UNSUP.items()]
                answers += [("hard-" + n, [("fail", e, 0, "ioctl", 1, "{dst}")]) for n, e in HARD.items()]
                answers += [("emulated-success", [("ret", 0, 0, "ioctl", 1, "{dst}")])]
                for (lab, plan) in answers:
                    if quick and size in (1, 100000) and lab not in ("real", "emulated-success", "unsup-EXDEV"):
                        continue
                    cases.append(Case(size, data=data, driver=driver, workers=w, bs=bs, reflink=mode, plan=plan,
                                      prior=rng.choice(["absent", "longer"]), label=lab))
    # the mode as a user may TYPE it: the option's value is case-insensitive (Always, NEVER, Auto are the modes always, never, auto)
    for driver in ("parfile", "parblock"):
        for spelling in ("Always", "ALWAYS", "Never", "NEVER", "Auto", "aUtO"):
            for (lab, plan) in (("real", []), ("emulated-success", [("ret", 0, 0, "ioctl", 1, "{dst}")])):
                c = Case(3 * B + 9, driver=driver, workers=rng.choice([1, 2]), bs=B, reflink=spelling.lower(), plan=plan,
                         prior="absent", label=lab + ", mode typed as " + spelling)
                c.reflink_spelling = spelling
                cases.append(c)
    return cases


def oracle(case, o, m):
    clones = [e for e in o.run.trace if e["sys"] == "ioctl" and e["a"][1] == xcp.FICLONE]
    data = [e for e in o.run.trace if e["p1"] == o.dst or e["p2"] == o.dst
            if e["sys"] in ("copy_file_range", "write", "pwrite64", "sendfile")]
    if case.reflink == "never":
        if clones:
            return ("reflink=never but a clone request (FICLONE) was issued", None)
        if o.exit == 0 and not datapath.files_equal(o.src, o.dst):
            return ("reflink=never, exit 0, destination differs", None)
        return None
    ok_clone = [e for e in clones if e["ret"] == 0 and e["p1"] == o.dst]
    if case.reflink == "always":
        if o.exit == 0 and not ok_clone:
            return ("reflink=always exited 0 although the file was not produced by a successful clone", None)
        if o.exit == 0 and data:
            return ("reflink=always exited 0 but copied data instead of (or besides) cloning", None)
        if ok_clone and o.exit != 0:
            return ("reflink=always failed although the clone succeeded", None)
        return None
    # auto
    if not clones:
        return ("reflink=auto did not try to clone", None)
    if data and clones[0]["e"] > min(e["e"] for e in data):
        return ("reflink=auto copied data before trying to clone", None)
    if ok_clone:
        if data:
            return ("reflink=auto copied data although the clone succeeded", None)
        if o.exit != 0:
            return ("reflink=auto failed although the clone succeeded", None)
        return None
    errno = -clones[0]["ret"]
    if errno in UNSUP.values():
        if o.exit != 0:
            return ("reflink=auto with clone unsupported (errno %d) did not fall back: exit %d" % (errno, o.exit), None)
        if not datapath.files_equal(o.src, o.dst):
            return ("reflink=auto fell back but the copy is not byte-exact", None)
    return None


def nontrivial(case, o):
    return case.reflink != "never" or case.size > 0


def run(ctx, out):
    out.rule = ("single files x both drivers x reflink {never, always, auto} x clone ioctl answered by the real file system "
                "(EOPNOTSUPP on ext4), by each 'unsupported' errno (EOPNOTSUPP EINVAL EXDEV ETXTBSY), by a hard errno "
                "(EIO EPERM ENOSPC), or emulated as successful (return 0, ioctl skipped) by the supervisor; plus trees of 12 files "
                "where the answer differs from file to file (refused for the first 1 or 3, successful after; real; successful "
                "for all): the contract is judged per file; plus trees copied ACROSS file systems (tmpfs <-> work directory), the kernel's own answer; plus -v / -vv runs whose standard output is a pipe or /dev/full; modes typed in upper / mixed case; distinct = distinct case tuple")
    out.assumptions.append("C15: a real successful clone is never exercised here (ext4 has no reflink); success is emulated")
    datapath.run_cases(ctx, out, gen(ctx), "C15", oracle, nontrivial)
    run_trees(ctx, out)
    run_cross(ctx, out)
    run_logging(ctx, out)


def run_logging(ctx, out):
    """What xcp prints must not change what it does: -v / -vv with a standard output that works, that is full (/dev/full: every
    write fails) or whose reader is gone.  auto still falls back to a byte-exact copy and exits 0; never issues no clone."""
    rng = ctx.rng
    sup = core.build_sup()
    d0 = ctx.work.fresh("c15log")
    k = 0
    for driver in ("parfile", "parblock"):
        for mode in ("auto", "never"):
            for verb in (["-v"], ["-vv"]):
                for so in (None, "/dev/full"):
                    k += 1
                    d = os.path.join(d0, "l%d" % k)
                    os.makedirs(os.path.join(d, "src", "sub"))
                    for i, size in enumerate([1, 70000, 300001]):
                        fsutil.make_file(os.path.join(d, "src", "sub" if i else "", "f%d" % i), size, [(0, size)], tag=k * 4 + i + 1, sync=False)
                    argv = [ctx.bins["xcp"], "-r", "-T", "--driver", driver, "-w", "2", "--reflink", mode, "--block-size", "65536"] + verb + ["src", "dst"]
                    r = xcp.run_supervised(sup, argv, d, d, tag="lg", timeout_ms=60000, stdout_path=so)
                    out.case(("logging", driver, mode, tuple(verb), so), True)
                    out.count("logging_runs")
                    rep = dict(kind="verbose run, standard output = %s" % (so or "a pipe"), argv=argv[1:], exit=r.exit, stderr=r.stderr[-300:])
                    nclone = sum(1 for e in r.trace if e["sys"] == "ioctl" and e["a"][1] == xcp.FICLONE and e.get("ret") is not None)
                    if mode == "never" and nclone:
                        out.violation("reflink=never but a clone request (FICLONE) was issued", rep)
                    elif r.exit != 0:
                        out.violation("reflink=%s with %s and standard output on %s failed (exit %d) where cloning is merely unavailable"
                                      % (mode, " ".join(verb), so or "a pipe", r.exit), rep)
                    else:
                        for rel in ("f0", "sub/f1", "sub/f2"):
                            if not datapath.files_equal(os.path.join(d, "src", rel), os.path.join(d, "dst", rel)):
                                out.violation("reflink=%s with %s: exit 0 but %s is not byte-exact" % (mode, " ".join(verb), rel), rep)
                                break
                    shutil.rmtree(d, ignore_errors=True)


def run_cross(ctx, out):
    """Source and destination on DIFFERENT file systems (a tmpfs and the work directory's): the answer to the clone request
    is the kernel's own (EXDEV / EOPNOTSUPP).  never: no request; always: non-zero exit, never a silent byte copy; auto: the
    request is still made first for every file, then a byte-exact copy, exit 0."""
    rng = ctx.rng
    sup = core.build_sup()
    other = "/dev/shm"
    d0 = ctx.work.fresh("c15cross")
    try:
        usable = os.access(other, os.W_OK) and os.stat(other).st_dev != os.stat(d0).st_dev
    except OSError:
        usable = False
    if not usable:
        out.count("other_filesystem_unavailable")
        return
    ext = os.path.join(other, "xcp-verif-c15-%d" % os.getpid())
    k = 0
    try:
        for driver in ("parfile", "parblock"):
            for mode in ("auto", "never", "always"):
                for direction in ("from-tmpfs", "to-tmpfs"):
                    k += 1
                    shutil.rmtree(ext, ignore_errors=True)
                    d = os.path.join(d0, "x%d" % k)
                    os.makedirs(d)
                    os.makedirs(ext)
                    sroot, droot = (ext, d) if direction == "from-tmpfs" else (d, ext)
                    files = []
                    for i, size in enumerate([1, 4096, 100001, 300000]):
                        os.makedirs(os.path.join(sroot, "src", "d%d" % (i % 2)), exist_ok=True)
                        p = os.path.join(sroot, "src", "d%d" % (i % 2), "f%d" % i)
                        fsutil.make_file(p, size, [(0, size)], tag=k * 8 + i + 1, sync=False)
                        files.append(os.path.relpath(p, os.path.join(sroot, "src")))
                    dst = os.path.join(droot, "dst")
                    argv = [ctx.bins["xcp"], "-r", "-T", "--driver", driver, "-w", str(rng.choice([1, 2, 4])), "--reflink", mode,
                            "--block-size", "65536", os.path.join(sroot, "src"), dst]
                    r = xcp.run_supervised(sup, argv, d, droot, tag="x", timeout_ms=60000)     # trace the DESTINATION's file system
                    out.case(("cross-filesystem", driver, mode, direction), True)
                    out.count("cross_filesystem_" + mode)
                    rep = dict(kind="source and destination on different file systems (%s)" % direction, argv=argv[1:], exit=r.exit, stderr=r.stderr[-300:])
                    per = {}
                    for e in r.trace:
                        if e.get("ret") is None:
                            continue
                        if e["sys"] == "ioctl" and e["a"][1] == xcp.FICLONE and e["p1"].startswith(dst):
                            per.setdefault(e["p1"], dict(clone=[], data=[]))["clone"].append((e["e"], e["ret"]))
                        elif e["sys"] == "copy_file_range" and e["p2"].startswith(dst):
                            per.setdefault(e["p2"], dict(clone=[], data=[]))["data"].append(e["e"])
                        elif e["sys"] in ("write", "pwrite64") and e["p1"].startswith(dst):
                            per.setdefault(e["p1"], dict(clone=[], data=[]))["data"].append(e["e"])
                    nclone = sum(len(v["clone"]) for v in per.values())
                    if mode == "never":
                        if nclone:
                            out.violation("reflink=never but a clone request (FICLONE) was issued", rep)
                        elif r.exit != 0:
                            out.violation("reflink=never copy across file systems failed: exit %d" % r.exit, rep)
                    elif mode == "always":
                        if r.exit == 0:
                            out.violation("reflink=always exited 0 across file systems, where no clone can succeed (%d clone requests made, %d files "
                                          "written byte by byte)" % (nclone, sum(1 for v in per.values() if v["data"])), rep)
                    else:
                        if r.exit != 0:
                            out.violation("reflink=auto failed (exit %d) where cloning is merely unavailable" % r.exit, rep)
                        else:
                            for rel in files:
                                p = os.path.join(dst, rel)
                                v = per.get(p, dict(clone=[], data=[]))
                                if not v["clone"]:
                                    out.violation("reflink=auto did not try to clone %s first (source and destination on different file systems)" % rel, rep)
                                    break
                                if v["data"] and min(v["data"]) < v["clone"][0][0]:
                                    out.violation("reflink=auto copied data of %s before trying to clone it" % rel, rep)
                                    break
                                if not datapath.files_equal(os.path.join(sroot, "src", rel), p):
                                    out.violation("reflink=auto fell back for %s but the copy is not byte-exact" % rel, rep)
                                    break
                    shutil.rmtree(d, ignore_errors=True)
    finally:
        shutil.rmtree(ext, ignore_errors=True)


def run_trees(ctx, out):
    """`for all trees`: the contract holds PER FILE — what the clone call answered for one file says nothing about the
    next (another file system may sit below a mount point, or be the home of another source).  Trees of 12 files in 3
    directories, both drivers, workers 1/2/4; the clone ioctl is answered by the real file system, refused for the
    first k files only (each unsupported errno) and emulated as successful for the rest, or emulated for all."""
    rng = ctx.rng
    quick = ctx.tier == "quick"
    sup = core.build_sup()
    d0 = ctx.work.fresh("c15tree")
    k = 0
    plans = [("real", None, 0)] + [("refused-%s-then-ok" % n, e, kk) for n, e in UNSUP.items() for kk in (1, 3)] + [("ok-for-all", None, -1)]
    for driver in ("parfile", "parblock"):
        for mode in ("auto", "never", "always"):
            for (lab, errno, nref) in plans:
                if quick and lab not in ("real", "ok-for-all", "refused-EOPNOTSUPP-then-ok", "refused-EXDEV-then-ok") :
                    continue
                if quick and nref == 3 and mode != "auto":
                    continue
                k += 1
                d = os.path.join(d0, "t%d" % k)
                files = []
                for i in range(12):
                    sub = os.path.join(d, "src", "d%d" % (i % 3))
                    os.makedirs(sub, exist_ok=True)
                    p = os.path.join(sub, "f%02d" % i)
                    fsutil.make_file(p, 1 + 3000 * i, [(0, 1 + 3000 * i)], tag=k * 16 + i + 1, sync=False)
                    files.append(os.path.relpath(p, os.path.join(d, "src")))
                w = rng.choice([1, 2, 4])
                rules = []
                if nref > 0:
                    rules = [("fail", errno, 0, "ioctl", j, "/dst/") for j in range(1, nref + 1)] + [("ret", 0, 0, "ioctl", 0, "/dst/")]
                elif nref < 0:
                    rules = [("ret", 0, 0, "ioctl", 0, "/dst/")]
                argv = [ctx.bins["xcp"], "-r", "-T", "--driver", driver, "-w", str(w), "--reflink", mode, "--block-size", "4096", "src", "dst"]
                r = xcp.run_supervised(sup, argv, d, d, rules=rules, tag="t", timeout_ms=60000)
                out.case(("tree", driver, mode, lab, w), nontrivial=True)
                out.count("tree_" + mode + "_" + ("real" if nref == 0 else "emulated"))
                rep = dict(argv=argv[1:], rules=rules, answers=lab, exit=r.exit, stderr=r.stderr[-300:])
                dst = os.path.join(d, "dst")
                per = {}
                for e in r.trace:
                    if e.get("ret") is None:
                        continue
                    if e["sys"] == "ioctl" and e["a"][1] == xcp.FICLONE and e["p1"].startswith(dst):
                        per.setdefault(e["p1"], dict(clone=[], data=[]))["clone"].append((e["e"], e["ret"]))
                    elif e["sys"] in ("copy_file_range", "write", "pwrite64", "sendfile"):
                        tp = e["p2"] if e["sys"] == "copy_file_range" else e["p1"]
                        if tp.startswith(dst):
                            per.setdefault(tp, dict(clone=[], data=[]))["data"].append(e["e"])
                if mode == "never":
                    bad = [p for p, v in per.items() if v["clone"]]
                    if bad:
                        out.violation("reflink=never but a clone request was issued for %s" % bad[:2], rep)
                    continue
                created = [os.path.join(dst, f) for f in files if os.path.exists(os.path.join(dst, f))]
                if mode == "auto":
                    if r.exit != 0:
                        out.violation("reflink=auto failed (exit %d) although every clone answer was `unsupported` or success" % r.exit, rep)
                        continue
                    for p in created:
                        if os.path.getsize(p) == 0 and p not in per:
                            continue          # empty file: nothing to clone or copy is acceptable
                        v = per.get(p, dict(clone=[], data=[]))
                        if not v["clone"]:
                            out.violation("reflink=auto did not try to clone %s (it did for %d other files of the same run)"
                                          % (os.path.relpath(p, dst), sum(1 for q in per.values() if q["clone"])), rep)
                            break
                        if v["data"] and min(v["data"]) < v["clone"][0][0]:
                            out.violation("reflink=auto copied data of %s before trying to clone it" % os.path.relpath(p, dst), rep)
                            break
                        if v["clone"][0][1] == 0 and v["data"]:
                            out.violation("reflink=auto copied data of %s although its clone succeeded" % os.path.relpath(p, dst), rep)
                            break
                        if v["clone"][0][1] != 0 and not datapath.files_equal(os.path.join(d, "src", os.path.relpath(p, dst)), p):
                            out.violation("reflink=auto fell back for %s but the copy is not byte-exact" % os.path.relpath(p, dst), rep)
                            break
                else:   # always
                    if r.exit == 0:
                        notcl = [p for p in created if not any(ret == 0 for _, ret in per.get(p, dict(clone=[]))["clone"])]
                        if notcl or len(created) != len(files):
                            out.violation("reflink=always exited 0 although %d of %d files were not produced by a successful clone"
                                          % (len(notcl) + len(files) - len(created), len(files)), rep)
                        elif any(v["data"] for v in per.values()):
                            out.violation("reflink=always exited 0 but copied data besides cloning", rep)
                    elif nref < 0:
                        out.violation("reflink=always failed (exit %d) although every clone succeeded" % r.exit, rep)
                shutil.rmtree(d, ignore_errors=True)
