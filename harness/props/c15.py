"""C15 — reflink modes keep their contract."""
import datapath
import xcp
from datapath import Case

B = 4096
UNSUP = dict(EOPNOTSUPP=95, EINVAL=22, EXDEV=18, ETXTBSY=26)
HARD = dict(EIO=5, EPERM=1, ENOSPC=28)


def gen(ctx):
    rng = ctx.rng
    quick = ctx.tier == "quick"
    cases = []
    shapes = [(0, None), (1, None), (3 * B + 9, None), (100000, None),
              (40 * B, [(i * B, (i + 1) * B) for i in range(0, 40, 2)])]
    for driver in ("parfile", "parblock"):
        for mode in ("never", "always", "auto"):
            for (size, data) in shapes:
                bs = rng.choice([B, 1000, "noprogress", 1 << 20])
                w = rng.choice([1, 2, 4])
                answers = [("real", [])]
                answers += [("unsup-" + n, [("fail", e, 0, "ioctl", 1, "{dst}")]) for n, e in UNSUP.items()]
                answers += [("hard-" + n, [("fail", e, 0, "ioctl", 1, "{dst}")]) for n, e in HARD.items()]
                answers += [("emulated-success", [("ret", 0, 0, "ioctl", 1, "{dst}")])]
                for (lab, plan) in answers:
                    if quick and size in (1, 100000) and lab not in ("real", "emulated-success", "unsup-EXDEV"):
                        continue
                    cases.append(Case(size, data=data, driver=driver, workers=w, bs=bs, reflink=mode, plan=plan,
                                      prior=rng.choice(["absent", "longer"]), label=lab))
    return cases


def oracle(case, o, m):
    clones = [e for e in o.run.trace if e["sys"] == "ioctl" and e["a"][1] == xcp.FICLONE]
    data = [e for e in o.run.trace if e["p1"] == o.dst or e["p2"] == o.dst
            if e["sys"] in ("copy_file_range", "write", "pwrite64", "sendfile")]
    if case.reflink == "never":
        if clones:
            return ("reflink=never but a clone request (FICLONE) was issued", None)
        if o.exit == 0 and not datapath.files_equal(o.src, o.dst):
            return ("reflink=never, exit 0, destination differs", None)
        return None
    ok_clone = [e for e in clones if e["ret"] == 0 and e["p1"] == o.dst]
    if case.reflink == "always":
        if o.exit == 0 and not ok_clone:
            return ("reflink=always exited 0 although the file was not produced by a successful clone", None)
        if o.exit == 0 and data:
            return ("reflink=always exited 0 but copied data instead of (or besides) cloning", None)
        if ok_clone and o.exit != 0:
            return ("reflink=always failed although the clone succeeded", None)
        return None
    # auto
    if not clones:
        return ("reflink=auto did not try to clone", None)
    if data and clones[0]["e"] > min(e["e"] for e in data):
        return ("reflink=auto copied data before trying to clone", None)
    if ok_clone:
        if data:
            return ("reflink=auto copied data although the clone succeeded", None)
        if o.exit != 0:
            return ("reflink=auto failed although the clone succeeded", None)
        return None
    errno = -clones[0]["ret"]
    if errno in UNSUP.values():
        if o.exit != 0:
            return ("reflink=auto with clone unsupported (errno %d) did not fall back: exit %d" % (errno, o.exit), None)
        if not datapath.files_equal(o.src, o.dst):
            return ("reflink=auto fell back but the copy is not byte-exact", None)
    return None


def nontrivial(case, o):
    return case.reflink != "never" or case.size > 0


def run(ctx, out):
    out.rule = ("single files x both drivers x reflink {never, always, auto} x clone ioctl answered by the real file system "
                "(EOPNOTSUPP on ext4), by each 'unsupported' errno (EOPNOTSUPP EINVAL EXDEV ETXTBSY), by a hard errno "
                "(EIO EPERM ENOSPC), or emulated as successful (return 0, ioctl skipped) by the supervisor; distinct = "
                "distinct case tuple")
    out.assumptions.append("C15: a real successful clone is never exercised here (ext4 has no reflink); success is emulated")
    datapath.run_cases(ctx, out, gen(ctx), "C15", oracle, nontrivial)
