"""C01 — exit 0 implies every copied regular file is byte-identical."""
import os
import shutil

import datapath
import xcp
from datapath import Case

B = 4096


def sizes_for(bs, rng):
    if bs == "noprogress":
        return [0, 1, B - 1, B, B + 1, 3 * B + 17, 200000, (1 << 20) + 5]
    ks = [0, 1, bs - 1, bs, bs + 1, 2 * bs - 1, 2 * bs, 2 * bs + 1, 5 * bs - 1, 5 * bs + 1, 7 * bs]
    ks += [rng.randrange(0, 40 * bs + 1) for _ in range(3)]
    return sorted({k for k in ks if k >= 0})


def sparse_layouts(size, rng):
    """data/hole layouts on 4 KiB granularity for a file of `size` bytes"""
    nb = size // B
    if nb < 4:
        return []
    outs = []
    outs.append([(0, B)])                                  # trailing hole
    outs.append([((nb - 1) * B, size)])                    # leading hole
    outs.append([(i * B, (i + 1) * B) for i in range(0, nb, 2)])   # interleaved
    outs.append([])                                        # entirely empty
    k = rng.randrange(1, nb)
    outs.append([(0, k * B // 2 // B * B or B), (min(nb - 1, k + 1) * B, size)])
    return outs


def gen(ctx):
    rng = ctx.rng
    quick = ctx.tier == "quick"
    cases = []
    bss = [1, 2, 3, 7, 512, 4095, 4096, 4097, 1000000, "noprogress"]
    for bs in bss:
        for size in sizes_for(bs, rng):
            for driver in ("parfile", "parblock"):
                if quick and rng.random() < 0.55:
                    continue
                cases.append(Case(size, driver=driver, workers=rng.choice([1, 2, 4, 16]), bs=bs,
                                  reflink=rng.choice(["auto", "never"]),
                                  prior=rng.choice(["absent", "absent", "shorter", "longer", "same"])))
    # sparse layouts (also > 32 extents)
    for size in ([16 * B, 64 * B + 123, 80 * B] if quick else [16 * B, 17 * B + 1, 64 * B + 123, 80 * B, 300 * B + 5]):
        for lay in sparse_layouts(size, rng):
            for driver in ("parfile", "parblock"):
                for bs in ([B, 3 * B + 1, "noprogress"] if quick else [1000, B, 3 * B + 1, 1 << 20, "noprogress"]):
                    if quick and rng.random() < 0.5:
                        continue
                    cases.append(Case(size, data=lay, driver=driver, workers=rng.choice([1, 2, 4]), bs=bs,
                                      reflink=rng.choice(["auto", "never"]),
                                      prior=rng.choice(["absent", "longer", "shorter"])))
    # prior destination fully allocated and longer, every driver
    for driver in ("parfile", "parblock"):
        for prior in ("shorter", "longer", "same"):
            cases.append(Case(3 * B + 5, driver=driver, workers=2, bs=B, prior=prior))
            cases.append(Case(0, driver=driver, workers=2, bs=B, prior=prior))
    # "larger than one kernel copy request": the kernel caps every request (scaled: cap < file size)
    for driver in ("parfile", "parblock"):
        for (size, bs, cap) in [(100000, "noprogress", 30000), (100000, 1 << 20, 4096), (9 * B + 7, 5 * B, B + 1),
                                (70000, "noprogress", 1), (50000, 20000, 19999)]:
            if cap == 1:
                size = 300
            cases.append(Case(size, driver=driver, workers=rng.choice([1, 4]), bs=bs,
                              plan=[("clamp", 4, cap, "copy_file_range", 0, "{dst}")], label="kernel request cap"))
    # MANY blocks in one range: more block jobs than any queue or batch constant in the drivers (the pool's queue holds
    # 128), with and without a partial tail block
    for driver in ("parfile", "parblock"):
        for (bs, k) in [(1, 129), (1, 300), (3, 257), (7, 130), (512, 129), (4096, 131), (rng.choice([2, 5, 64]), rng.randrange(129, 700))]:
            if quick and driver == "parfile" and rng.random() < 0.6:
                continue
            size = k * bs + rng.choice([0, rng.randrange(0, bs)])
            cases.append(Case(size, driver=driver, workers=rng.choice([1, 2, 4]), bs=bs, reflink="never",
                              prior=rng.choice(["absent", "longer"]), label="more than 128 blocks in one range"))
        cases.append(Case(900 * B, data=[(0, 200 * B), (300 * B, 300 * B + 150 * B + 77), (700 * B, 900 * B)], driver=driver,
                          workers=rng.choice([2, 4]), bs=B, reflink="never", label="more than 128 blocks in each of several extents"))
    # layouts whose extent map and readable content disagree for a while: a region reserved with fallocate and then written
    # through the page cache is still flagged `unwritten` by FIEMAP until writeback, yet it is data like any other
    MiB = 1 << 20
    for driver in ("parfile", "parblock"):
        for (size, regions) in [(8 * MiB, [(MiB, 300001)]), (3 * MiB + 1234, [(0, 3 * B), (2 * MiB, 5 * B + 7)]),
                                (6 * MiB, [(MiB + 12345, 70000), (5 * MiB, MiB)])]:
            for bs in ([B * 16, "noprogress"] if quick else [B, B * 16, MiB, "noprogress"]):
                c = Case(size, data=[(o, o + l) for o, l in regions], driver=driver, workers=rng.choice([1, 2, 4]), bs=bs,
                         reflink="never", prior=rng.choice(["absent", "longer"]), label="preallocated, written, not yet synced")
                c.prealloc = regions
                cases.append(c)
    # "whenever xcp exits 0": also when a data call FAILED on the way — exit 0 then still promises identical bytes
    # (the failure must surface in the status, through whichever route the driver reports it: join result or the
    # update channel, with or without a progress bar)
    EIO, ENOSPC, ENOSYS = 5, 28, 38
    for driver in ("parfile", "parblock"):
        for bs in (B, "noprogress"):
            for nth in (1, 2, 3):
                cases.append(Case(6 * B + 100, driver=driver, workers=rng.choice([1, 2, 4]), bs=bs, reflink="never",
                                  plan=[("fail", rng.choice([EIO, ENOSPC]), 0, "copy_file_range", nth, "{dst}")], label="failing kernel copy"))
            cases.append(Case(6 * B + 100, driver=driver, workers=2, bs=bs, reflink="never",
                              plan=[("fail", ENOSYS, 0, "copy_file_range", 0, "{dst}"), ("fail", EIO, 0, rng.choice(["pwrite64", "write"]), 2, "{dst}")],
                              label="failing user-space write"))
            cases.append(Case(64 * B, data=[(0, B), (20 * B, 24 * B), (60 * B, 64 * B)], driver=driver, workers=2, bs=bs, reflink="never",
                              plan=[("fail", EIO, 0, "copy_file_range", 2, "{dst}")], label="failing kernel copy, sparse source"))
    # no kernel copy at all (ENOSYS / EXDEV for every request): every transfer goes through the user-space loops — under the block
    # driver several jobs of ONE file run at once on one pair of descriptors, threads held at random
    for errno in (ENOSYS, 18):
        for (w, sd) in (((4, 1), (8, 2)) if quick else ((2, 1), (4, 2), (4, 3), (8, 4), (8, 5), (16, 6))):
            c = Case(64 * B + 123, driver="parblock", workers=w, bs=B, reflink="never", plan=[("fail", errno, 0, "copy_file_range", 0, "{dst}")],
                     label="no kernel copy, %d workers, 65 blocks" % w)
            c.seed = sd * 1000 + w
            cases.append(c)
    # the source's file system offers NO extent map (FIEMAP answers EOPNOTSUPP, as on tmpfs): a sparse file is still copied
    for driver in ("parfile", "parblock"):
        for (size, lay) in [(40 * B + 5, [(i * B, (i + 1) * B) for i in range(0, 40, 2)]), (3 * (1 << 20), [(0, B), ((1 << 20), (1 << 20) + 3 * B), (3 * (1 << 20) - B, 3 * (1 << 20))])]:
            for bs in ((3 * B, "noprogress") if quick else (B, 3 * B, 1 << 20, "noprogress")):
                cases.append(Case(size, data=lay, driver=driver, workers=rng.choice([1, 2, 4]), bs=bs, reflink="never",
                                  plan=[("fail", 95, 0, "ioctl", 0, "{src}")], label="sparse source, no extent map"))
    # ... and when OPENING or creating the file failed: nothing at the destination is a file that `differs`
    for driver in ("parfile", "parblock"):
        for (errno, which) in [(2, "{dst}"), (2, "{src}"), (13, "{dst}"), (24, "{src}"), (20, "{dst}")]:
            if quick and rng.random() < 0.4:
                continue
            cases.append(Case(3 * B + 7, driver=driver, workers=rng.choice([1, 2]), bs=rng.choice([B, "noprogress"]), reflink="never",
                              plan=[("fail", errno, 0, "openat", 1, which)], label="failing open / create"))
    # the RELEASE build (integer overflow wraps there instead of panicking; the optimiser is on): the boundary grid again, block
    # sizes up to 2^64 - 1 included
    for driver in ("parfile", "parblock"):
        for (size, bs) in [(0, 1), (1, 1), (300, 1), (5 * B + 1, B), (7 * B, B), (100001, (1 << 64) - 1), (100001, 1 << 63), (3 * B + 7, 4097), (200000, "noprogress")]:
            c = Case(size, driver=driver, workers=rng.choice([1, 4]), bs=bs, reflink=rng.choice(["auto", "never"]),
                     prior=rng.choice(["absent", "longer", "shorter"]), label="release build")
            c.binary = "xcp_release"
            cases.append(c)
        c = Case(64 * B + 123, data=[(0, B), (20 * B, 24 * B), (60 * B, 64 * B + 123)], driver=driver, workers=2, bs=3 * B + 1, reflink="never", label="release build, sparse")
        c.binary = "xcp_release"
        cases.append(c)
    if not quick:
        for _ in range(1500):
            bs = rng.choice(bss)
            size = rng.randrange(0, 300000) if bs in (1000000, "noprogress", 4095, 4096, 4097) else rng.randrange(0, 60 * bs)
            cases.append(Case(size, driver=rng.choice(["parfile", "parblock"]), workers=rng.choice([1, 2, 3, 4, 8, 16]),
                              bs=bs, reflink=rng.choice(["auto", "never"]),
                              prior=rng.choice(["absent", "shorter", "longer", "same"])))
    return cases


def oracle(case, o, m):
    if o.exit != 0:
        return None
    if not o.dst_exists:
        return ("exit 0 but the destination file does not exist", None)
    if o.dst_size != case.size:
        return ("exit 0 but destination length %s != source length %d" % (o.dst_size, case.size), None)
    if not datapath.files_equal(o.src, o.dst):
        return ("exit 0 but destination differs from source at byte %s" % datapath.first_diff(o.src, o.dst), None)
    return None


def nontrivial(case, o):
    return case.size > 0 and (len(o.xfers) >= 2 or o.sparse or case.prior != "absent" or bool(case.plan))


def run(ctx, out):
    out.rule = ("single regular file per case: size x block size boundary grid (0,1,k*bs-1,k*bs,k*bs+1), bs in "
                "{1,2,3,7,512,4095,4096,4097,1MB,usize::MAX via --no-progress}, dense and sparse layouts (leading/trailing/"
                "interleaved/empty, >32 extents, regions preallocated with fallocate and written without a sync), prior destination absent/shorter/longer/same, both drivers, workers "
                "1..16, reflink auto/never, plus scaled kernel request caps and runs in which one data call fails (EIO / ENOSPC at the "
                "n-th kernel copy or user-space write, with and without --no-progress): exit 0 still means identical; plus several "
                "sources in one invocation (directories with and without -T, files, with equal and distinct relative names): every "
                "selected file at ITS mapped destination; non-trivial = non-empty file with >=2 "
                "transfers, or sparse, or overwriting, or a capped kernel; distinct = distinct case tuple")
    import core as _core
    ctx.bins["xcp_release"] = _core.build_rust_release()
    datapath.run_cases(ctx, out, gen(ctx), "C01", oracle, nontrivial)
    run_several_sources(ctx, out)
    run_unreachable_and_vanishing(ctx, out)
    import destmatrix
    destmatrix.run_parent_missing(ctx, out, "C01", sources=["file"])


def run_unreachable_and_vanishing(ctx, out):
    """exit 0 promises every selected file at its destination — also when the destination path cannot be created (a missing
    parent directory) and when files of the tree are renamed away by someone else while the copy is under way (then the run
    must fail: the file was selected, it is not at its destination)"""
    import time
    import core
    rng = ctx.rng
    quick = ctx.tier == "quick"
    sup = core.build_sup()
    d0 = ctx.work.fresh("c01gone")
    k = 0
    for driver in ("parfile", "parblock"):
        for tail in (["a.bin", "nosuchdir/a.bin"], ["a.bin", "nosuchdir/deeper/"], ["-r", "tree", "nosuchdir/sub/tree"]):
            k += 1
            d = os.path.join(d0, "u%d" % k)
            os.makedirs(os.path.join(d, "tree"))
            open(os.path.join(d, "a.bin"), "wb").write(b"A" * 70000)
            open(os.path.join(d, "tree", "t.bin"), "wb").write(b"T" * 5000)
            argv = [ctx.bins["xcp"], "--driver", driver, "-w", "2"] + tail
            r = xcp.run_plain(argv, d)
            out.case(("missing-parent", driver, tuple(tail)), True)
            out.count("destination_parent_missing")
            if r.exit == 0:
                want = [("a.bin", tail[-1] if not tail[-1].endswith("/") else tail[-1] + "a.bin")] if tail[0] != "-r" else [("tree/t.bin", "nosuchdir/sub/tree/t.bin")]
                for a, b in want:
                    if not datapath.files_equal(os.path.join(d, a), os.path.join(d, b)):
                        out.violation("exit 0 but %s, the mapped destination of %s, is missing or differs (its parent directory did not exist)" % (b, a),
                                      dict(argv=argv[1:], exit=r.exit, stderr=r.stderr[-300:]))
            shutil.rmtree(d, ignore_errors=True)
    # files renamed away during the run: the first data call is held, the environment acts, the run goes on
    for driver in ("parfile", "parblock"):
        for w in ((1,) if quick else (1, 2, 4)):
            for how in ("rename", "unlink"):
                k += 1
                d = os.path.join(d0, "v%d" % k)
                os.makedirs(os.path.join(d, "src", "sub"))
                names = ["f%d.bin" % i for i in range(8)] + ["sub/g%d.bin" % i for i in range(4)]
                for i, nme in enumerate(names):
                    open(os.path.join(d, "src", nme), "wb").write(bytes([65 + i]) * (66000 + i))
                victims = [n for i, n in enumerate(names) if i % 2 == 1]
                acted = []

                def env(d=d, victims=victims, how=how, acted=acted):
                    t0 = time.time()
                    while time.time() - t0 < 20 and not os.path.isdir(os.path.join(d, "dst", "sub")):
                        time.sleep(0.005)
                    for v in victims:
                        try:
                            if how == "rename":
                                os.rename(os.path.join(d, "src", v), os.path.join(d, "src", v + ".moved"))
                            else:
                                os.unlink(os.path.join(d, "src", v))
                            acted.append(v)
                        except OSError:
                            pass
                argv = [ctx.bins["xcp"], "-r", "-T", "--driver", driver, "-w", str(w), "--block-size", "65536", "src", "dst"]
                rules = [("hold", 1500, 0, "copy_file_range", 1, "*")]
                r = xcp.run_supervised(sup, argv, d, d, rules=rules, tag="v", timeout_ms=60000, during=env, during_delay=0.0)
                out.case(("vanishing-sources", driver, w, how), nontrivial=bool(acted))
                out.count("sources_vanishing_during_the_run")
                if r.exit == 0:
                    missing = [n for n in names if not os.path.exists(os.path.join(d, "dst", n))]
                    if missing:
                        out.violation("exit 0 but %d selected files are not at their destination (%s): they were %sd by another process after "
                                      "the walk had selected them" % (len(missing), missing[:3], how),
                                      dict(argv=argv[1:], rules=rules, environment="%s of %s once dst/sub exists" % (how, victims), exit=r.exit,
                                           stderr=r.stderr[-300:]))
                shutil.rmtree(d, ignore_errors=True)


def run_several_sources(ctx, out):
    """"every regular file selected for copying exists at its MAPPED destination": with several sources in one invocation
    each file has its own mapped destination under cp's rule (dest/basename/.., or dest/.. with -T); when two selected
    files map to ONE destination path the invocation cannot be honoured — exit 0 would promise both"""
    rng = ctx.rng
    quick = ctx.tier == "quick"
    d0 = ctx.work.fresh("c01multi")
    k = 0
    for driver in ("parfile", "parblock"):
        for shape in ("dirs-T-same-names", "dirs-same-names", "dirs-T-distinct", "files-same-basename", "files-distinct", "dir-and-file", "odd-names"):
            for w in ((1, 4) if not quick else (rng.choice([1, 4]),)):
                k += 1
                d = os.path.join(d0, "m%d" % k)
                os.makedirs(os.path.join(d, "dest"))
                mk = lambda rel, n, tag: (os.makedirs(os.path.dirname(os.path.join(d, rel)), exist_ok=True),
                                           open(os.path.join(d, rel), "wb").write(bytes([tag]) * n))
                if shape == "odd-names":
                    # names that are not UTF-8 (twins differing in one such byte), below the operand and in nested directories
                    db = os.fsencode(d)
                    for rel, n, tag in ((b"a/rec\xff.dat", 70000, 65), (b"a/rec\xfe.dat", 70001, 66), (b"a/caf\xe9/inner\xc0/leaf", 3000, 67),
                                        (b"a/caf\xc3\xa9/leaf", 3001, 68), (b"a/plain", 10, 69)):
                        os.makedirs(os.path.dirname(os.path.join(db, rel)), exist_ok=True)
                        open(os.path.join(db, rel), "wb").write(bytes([tag]) * n)
                    srcs, flags = ["a"], ["-r"]
                elif shape.startswith("dirs"):
                    mk("a/f", 3 * (1 << 20) + 1, 65); mk("a/sub/g", 5000, 66); mk("a/only_a", 100, 67)
                    if "distinct" in shape:
                        mk("b/h", 1 << 20, 68); mk("b/sub/i", 7000, 69)
                    else:
                        mk("b/f", 1 << 20, 68); mk("b/sub/g", 7000, 69); mk("b/only_b", 50, 70)
                    srcs = ["a", "b"]
                    flags = ["-r"] + (["-T"] if "-T" in shape else [])
                elif shape == "files-same-basename":
                    mk("p/x.bin", 70000, 71); mk("q/x.bin", 30000, 72)
                    srcs, flags = ["p/x.bin", "q/x.bin"], []
                elif shape == "files-distinct":
                    mk("p/x.bin", 70000, 71); mk("q/y.bin", 30000, 72)
                    srcs, flags = ["p/x.bin", "q/y.bin"], []
                else:
                    mk("a/f", 200000, 65); mk("f", 100, 73)
                    srcs, flags = ["a", "f"], ["-r"]
                argv = [ctx.bins["xcp"], "--driver", driver, "-w", str(w), "--block-size", "65536"] + flags + srcs + ["dest"]
                r = xcp.run_plain(argv, d)
                out.case(("several-sources", shape, driver, w), True)
                out.count("several_sources_" + shape)
                rep = dict(argv=argv[1:], shape=shape, exit=r.exit, stderr=r.stderr[-300:])
                if r.exit == 0:
                    bad = None
                    for sarg in srcs:
                        sp = os.path.join(d, sarg)
                        base = os.path.join(d, "dest") if "-T" in flags else os.path.join(d, "dest", os.path.basename(sarg))
                        files = [(sp, base)] if os.path.isfile(sp) else \
                            [(os.path.join(r0, f), os.path.join(base, os.path.relpath(os.path.join(r0, f), sp))) for r0, _, fs in os.walk(sp) for f in fs]
                        for (a, b) in files:
                            if not datapath.files_equal(a, b):
                                bad = "exit 0 but %s (the mapped destination of %s) %s" % (
                                    os.path.relpath(b, d), os.path.relpath(a, d),
                                    "is missing" if not os.path.exists(b) else "differs from it (length %d vs %d)" % (os.path.getsize(b), os.path.getsize(a)))
                                break
                        if bad:
                            break
                    if bad:
                        out.violation(bad, rep)
                shutil.rmtree(d, ignore_errors=True)
