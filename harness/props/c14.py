"""C14 — FIFOs, sockets and character devices are recreated as identical nodes."""
import os
import shutil
import stat

import core
import trees
import xcp

KINDS = ["fifo", "sock", "chr"]
DEVS = [(1, 3), (1, 5), (5, 0), (300, 70000), (4095, 1048575), (0, 0), (10, 200), (256, 256)]
FT = {"sock": 3, "fifo": 4, "chr": 5}
SIFMT = {"fifo": stat.S_IFIFO, "sock": stat.S_IFSOCK, "chr": stat.S_IFCHR}


def mk(kind, path, mode, dev):
    if kind == "chr":
        trees.materialise(("chr", dev, dict(mode=mode)), os.fsencode(path))
    else:
        trees.materialise((kind, dict(mode=mode)), os.fsencode(path))


def run(ctx, out):
    rng = ctx.rng
    quick = ctx.tier == "quick"
    sup = core.build_sup()
    d0 = ctx.work.fresh("c14")
    out.rule = ("FIFOs, sockets, character devices (majors/minors incl. > 255 and > 20 bit) x modes x umask {0,022,077} x sole "
                "source or inside a tree x fresh / existing destination entry (file, same kind, link to a file, link to a directory) x --no-clobber x both drivers x {none, --ownership, --fsync, --no-timestamps}; "
                "block devices must fail; nodes copied to a path whose parent is missing, trees in which one mknod answers ENOENT / ENOTDIR / EEXIST / ENOSPC (exit 0 only with every node present); nodes named .gitignore under --gitignore (never opened); non-trivial = every case (a node is created or refused); distinct = case tuple")
    cases = []
    for kind in KINDS:
        for umask in (0, 0o022, 0o077):
            for pos in ("sole", "tree"):
                for existing in (None, "file", "same", "link-to-file", "link-to-dir"):
                    for nc in (False, True):
                        if quick and rng.random() < 0.45:
                            continue
                        cases.append(dict(kind=kind, umask=umask, pos=pos, existing=existing, nc=nc,
                                          mode=rng.choice([0o644, 0o600, 0o666, 0o755, 0o620, 0o777, 0o400, 0o4755]),
                                          dev=rng.choice(DEVS), driver=rng.choice(["parfile", "parblock"]),
                                          # options that say nothing about how a node is made
                                          opts=rng.choice([[], [], ["--ownership"], ["--ownership"], ["--fsync"], ["--no-timestamps"], ["--ownership", "--fsync"]])))
    minputs, obs = [], []
    for k, c in enumerate(cases):
        d = os.path.join(d0, "c%d" % k)
        os.makedirs(os.path.join(d, "src"))
        os.makedirs(os.path.join(d, "dst"))
        spath = os.path.join(d, "src", "node")
        mk(c["kind"], spath, c["mode"], c["dev"])
        if c["pos"] == "tree":
            open(os.path.join(d, "src", "plain"), "wb").write(b"x" * 10)
            argv_tail = ["-r", os.path.join(d, "src"), os.path.join(d, "dst")]
            tpath = os.path.join(d, "dst", "src", "node")
            if c["existing"]:
                os.makedirs(os.path.join(d, "dst", "src"))
        else:
            argv_tail = [spath, os.path.join(d, "dst")]
            tpath = os.path.join(d, "dst", "node")
        if c["existing"] == "file":
            open(tpath, "wb").write(b"existing")
        elif c["existing"] == "same":
            mk(c["kind"], tpath, 0o600, (9, 9))
        elif c["existing"] == "link-to-file":
            open(os.path.join(d, "elsewhere.txt"), "wb").write(b"the link's target, a bystander")
            os.symlink(os.path.join(d, "elsewhere.txt"), tpath)
        elif c["existing"] == "link-to-dir":
            os.makedirs(os.path.join(d, "elsewhere.d"))
            open(os.path.join(d, "elsewhere.d", "inside"), "wb").write(b"bystander")
            os.symlink(os.path.join(d, "elsewhere.d"), tpath)
        before = os.lstat(tpath) if c["existing"] else None
        argv = [ctx.bins["xcp"], "--driver", c["driver"], "-w", "2"] + (["--no-clobber"] if c["nc"] else []) + c["opts"] + argv_tail
        r = xcp.run_supervised(sup, argv, d, d, tag="n", umask=c["umask"], timeout_ms=20000)
        rep = dict(case={a: (oct(b) if a in ("mode", "umask") else b) for a, b in c.items()}, argv=argv, exit=r.exit,
                   stderr=r.stderr[-300:])
        out.case(("node",) + tuple(sorted((a, repr(b)) for a, b in c.items())), True)
        out.count("kind_" + c["kind"])
        if r.meta.get("timeout"):
            out.violation("xcp hung on a special file", rep)
            continue
        # never opened / read
        for e in r.trace:
            if e["p1"] == spath and e["sys"] in ("open", "openat", "read", "pread64", "copy_file_range"):
                out.violation("the special source was opened/read (%s)" % e["sys"], rep)
                break
        try:
            st = os.lstat(tpath)
        except OSError:
            st = None
        collide = c["existing"] is not None
        if collide and c["nc"]:
            if r.exit == 0:
                out.violation("--no-clobber with an existing destination entry exited 0", rep)
            elif st is None or (st.st_ino, st.st_mode, st.st_size) != (before.st_ino, before.st_mode, before.st_size):
                out.violation("--no-clobber altered the existing destination entry", rep)
        else:
            if r.exit != 0:
                out.violation("special file copy failed: exit %d" % r.exit, rep)
            elif st is None:
                out.violation("exit 0 but no node at the destination", rep)
            else:
                exp_mode = c["mode"] & 0o7777 & ~c["umask"]
                if stat.S_IFMT(st.st_mode) != SIFMT[c["kind"]]:
                    out.violation("node type differs: %o" % stat.S_IFMT(st.st_mode), rep)
                elif stat.S_IMODE(st.st_mode) != exp_mode:
                    out.violation("node mode %o, expected %o (source %o, umask %o)" % (
                        stat.S_IMODE(st.st_mode), exp_mode, c["mode"], c["umask"]), rep)
                elif c["kind"] == "chr" and st.st_rdev != os.makedev(*c["dev"]):
                    out.violation("device number %d,%d copied as %d,%d" % (
                        c["dev"][0], c["dev"][1], os.major(st.st_rdev), os.minor(st.st_rdev)), rep)
        rdev = os.makedev(*c["dev"]) if c["kind"] == "chr" else 0
        minputs.append([c["umask"], FT[c["kind"]], c["mode"], rdev, int(c["nc"]), int(collide)])
        mk_ev = [e for e in r.trace if e["sys"] in ("mknodat", "mknod") and e["p1"] == tpath]
        ul_ev = [e for e in r.trace if e["sys"] in ("unlink", "unlinkat") and e["p1"] == tpath]
        obs.append((rep, r.exit, st, len(mk_ev) + len(ul_ev), c))
        shutil.rmtree(d, ignore_errors=True)
    # block device / unknown kinds fail
    for driver in ("parfile", "parblock"):
        d = os.path.join(d0, "blk_" + driver)
        os.makedirs(os.path.join(d, "src"))
        os.makedirs(os.path.join(d, "dst"))
        trees.materialise(("blk", (7, 0), dict(mode=0o600)), os.fsencode(os.path.join(d, "src", "blk")))
        argv = [ctx.bins["xcp"], "--driver", driver, "-r", os.path.join(d, "src"), os.path.join(d, "dst")]
        r = xcp.run_supervised(sup, argv, d, d, tag="b", timeout_ms=20000)
        out.case(("blk", driver), True)
        if r.exit == 0:
            out.violation("a block device in the tree did not make the run fail", dict(argv=argv, exit=r.exit))
        shutil.rmtree(d, ignore_errors=True)
    # trees in which special nodes travel with ordinary files of every mode (private 0600 ones among them), several workers,
    # a node that CANNOT be made — the destination's parent directory does not exist, or mknod answers ENOENT / ENOTDIR / EEXIST /
    # ENOSPC for one node of a tree: `copied by creating a node` leaves two outcomes, the node exists as specified or the run fails
    k2 = 0
    for driver in ("parfile", "parblock"):
        for kind in KINDS:
            k2 += 1
            d = os.path.join(d0, "np%d" % k2)
            os.makedirs(d)
            mk(kind, os.path.join(d, "node"), 0o644, DEVS[0])
            argv = [ctx.bins["xcp"], "--driver", driver, "-w", "2", "node", "missing/dir/node"]
            r = xcp.run_supervised(sup, argv, d, d, tag="np", umask=0o022, timeout_ms=20000)
            out.case(("node-missing-parent", driver, kind), True)
            out.count("node_destination_parent_missing")
            if r.exit == 0 and not os.path.lexists(os.path.join(d, "missing", "dir", "node")):
                out.violation("exit 0 but no node at missing/dir/node (a %s copied to a path whose parent directory does not exist)" % kind,
                              dict(argv=argv[1:], exit=r.exit, stderr=r.stderr[-200:]))
            shutil.rmtree(d, ignore_errors=True)
        for errno in (2, 20, 17, 28):
            for nth in (1, 2, 3):
                k2 += 1
                d = os.path.join(d0, "nf%d" % k2)
                os.makedirs(os.path.join(d, "src"))
                for i3 in range(3):
                    os.mkfifo(os.path.join(d, "src", "p%d" % i3))
                argv = [ctx.bins["xcp"], "-r", "-T", "--driver", driver, "-w", str(rng.choice([1, 2])), "src", "dst"]
                rules = [("fail", errno, 0, "mknodat", nth, "*")]
                r = xcp.run_supervised(sup, argv, d, d, rules=rules, tag="nf", umask=0o022, timeout_ms=20000)
                out.case(("node-mknod-fault", driver, errno, nth), True)
                out.count("node_mknod_faults")
                have = [i3 for i3 in range(3) if os.path.lexists(os.path.join(d, "dst", "p%d" % i3))]
                if r.exit == 0 and len(have) != 3:
                    out.violation("exit 0 but only %d of 3 FIFOs exist at the destination (mknod #%d answered errno %d)" % (len(have), nth, errno),
                                  dict(argv=argv[1:], rules=rules, exit=r.exit, stderr=r.stderr[-200:]))
                shutil.rmtree(d, ignore_errors=True)
    # a special file whose NAME makes xcp look at it: a FIFO, socket or character device called `.gitignore` in the source root (and
    # deeper) under --gitignore — it is an entry to be copied like any other node, never opened for reading, and the run ends
    k3 = 0
    for driver in ("parfile", "parblock"):
        for kind in KINDS:
            k3 += 1
            d = os.path.join(d0, "gi%d" % k3)
            os.makedirs(os.path.join(d, "src", "sub"))
            mk(kind, os.path.join(d, "src", ".gitignore"), 0o640, (1, 3))
            mk(kind, os.path.join(d, "src", "sub", ".gitignore"), 0o606, (1, 5))
            open(os.path.join(d, "src", "secret.txt"), "wb").write(b"secret")
            argv = [ctx.bins["xcp"], "-r", "-T", "--gitignore", "--driver", driver, "-w", "2", "src", "dst"]
            r = xcp.run_supervised(sup, argv, d, d, tag="gi", umask=0o022, timeout_ms=15000)
            out.case(("node-named-gitignore", driver, kind), True)
            out.count("nodes_named_gitignore")
            rep = dict(kind="%s named .gitignore under --gitignore" % kind, argv=argv[1:], exit=r.exit, stderr=r.stderr[-200:])
            opened = [e for e in r.trace if e["sys"] in ("openat", "open") and e.get("ret") is not None
                      and e["p1"].endswith("/.gitignore") and e["p1"].startswith(os.path.join(d, "src"))
                      and not ((e["a"][2] if e["sys"] == "openat" else e["a"][1]) & 0o10000000)]          # (O_PATH is not an open for reading)
            if r.meta.get("timeout") or r.exit == 124:
                out.violation("xcp --gitignore did not end: a %s named .gitignore sits in the source" % kind, rep)
            elif opened:
                out.violation("a %s named .gitignore was opened for reading under --gitignore" % kind, rep)
            elif r.exit == 0:
                for rel, mode in ((".gitignore", 0o640 & ~0o022), ("sub/.gitignore", 0o606 & ~0o022)):
                    try:
                        st = os.lstat(os.path.join(d, "dst", rel))
                        okk = stat.S_IMODE(st.st_mode) == mode and not stat.S_ISREG(st.st_mode)
                    except OSError:
                        okk = False
                    if not okk:
                        out.violation("exit 0 but dst/%s is not the %s with mode %o" % (rel, kind, mode), rep)
                        break
                if not os.path.isfile(os.path.join(d, "dst", "secret.txt")):
                    out.violation("exit 0 but secret.txt was not copied: the content of a special file named .gitignore was used as patterns", rep)
            shutil.rmtree(d, ignore_errors=True)
    # threads held at random and at every umask() call the program might make: the mode of a node depends on the source's
    # mode and the umask xcp was STARTED with, never on what another worker is doing at that moment
    for k in range(4 if quick else 40):
        for umask in (0o022, 0):
            d = os.path.join(d0, "mix%d_%o" % (k, umask))
            os.makedirs(os.path.join(d, "src", "sub"))
            nodes = {}
            for i in range(8):
                rel = ("n%d" % i) if i % 2 else os.path.join("sub", "n%d" % i)
                kind = ["fifo", "sock", "chr"][i % 3]
                mode = rng.choice([0o644, 0o666, 0o664, 0o646, 0o755, 0o640])
                dev = rng.choice([(1, 3), (1, 5), (300, 70000)])
                mk(kind, os.path.join(d, "src", rel), mode, dev)
                nodes[rel] = (kind, mode, dev)
                for j in range(3):
                    fp = os.path.join(d, "src", os.path.dirname(rel), "f%d_%d" % (i, j))
                    open(fp, "wb").write(b"x" * rng.randrange(1, 9000))
                    os.chmod(fp, rng.choice([0o600, 0o600, 0o644, 0o400, 0o700]))
            driver = "parfile" if k % 3 else "parblock"
            w = rng.choice([2, 4, 8])
            argv = [ctx.bins["xcp"], "-r", "-T", "--driver", driver, "-w", str(w), os.path.join(d, "src"), os.path.join(d, "dst")]
            r = xcp.run_supervised(sup, argv, d, d, tag="x", umask=umask, timeout_ms=60000, seed=rng.randrange(1 << 30),
                                   hold_permille=150, hold_maxms=4, rules=[("hold", 15, 0, "umask", 0, "*")])
            out.case(("mixed-tree", k, umask, driver, w), True)
            out.count("mixed_trees")
            rep = dict(argv=argv[1:], umask=oct(umask), nodes={a: (b[0], oct(b[1])) for a, b in nodes.items()}, exit=r.exit, stderr=r.stderr[-300:])
            if r.exit != 0:
                out.violation("copy of a tree with special files failed: exit %d" % r.exit, rep)
            else:
                for rel, (kind, mode, dev) in nodes.items():
                    try:
                        st = os.lstat(os.path.join(d, "dst", rel))
                    except OSError:
                        out.violation("exit 0 but no node at dst/%s" % rel, rep)
                        break
                    exp_mode = mode & ~umask
                    if stat.S_IFMT(st.st_mode) != SIFMT[kind] or stat.S_IMODE(st.st_mode) != exp_mode or \
                            (kind == "chr" and st.st_rdev != os.makedev(*dev)):
                        out.violation("node dst/%s: type/mode/device %o %o %s, expected %o %o (umask %o) — in a tree copied by %d workers"
                                      % (rel, stat.S_IFMT(st.st_mode), stat.S_IMODE(st.st_mode), (os.major(st.st_rdev), os.minor(st.st_rdev)),
                                         SIFMT[kind], exp_mode, umask, w), rep)
                        break
            shutil.rmtree(d, ignore_errors=True)
    if ctx.model_ok and minputs:
        res = core.run_model("run_node", minputs, shard=40, tag="c14")
        for (rep, exitc, st, nacts, c), mo in zip(obs, res):
            if mo[0] == 0:
                if exitc == 0:
                    out.corr("R1-special-worker: model refuses, xcp exit 0", rep["case"], mo, exitc)
                continue
            if exitc != 0 or st is None:
                out.corr("R1-special-worker: model creates, xcp failed", rep["case"], mo, exitc)
                continue
            got = [1, nacts, {stat.S_IFSOCK: 3, stat.S_IFIFO: 4, stat.S_IFCHR: 5}.get(stat.S_IFMT(st.st_mode), 9),
                   stat.S_IMODE(st.st_mode), st.st_rdev]
            if got != mo:
                out.corr("R1-node", rep["case"], mo, got)
    if obs:
        out.sample(dict(case=obs[0][0]["case"], exit=obs[0][1]))
    import destmatrix
    destmatrix.run(ctx, out, "C14", sources=["special"])
