"""C19 — libfs sparse maps never hide data.

R0: probe merge / extents / segments vs the Gallina functions run_merge,
run_map_extents, run_segments on the same inputs.
Direct oracle (failing-input search): the property itself evaluated on the
implementation's outputs — coverage ⊇ inputs, boundaries are input boundaries,
additions are one-byte gaps; bytes outside reported ranges read as zero.
"""
import itertools
import os
import subprocess

import core
import fsutil


# ---------------------------------------------------------------------------
# merge_extents
# ---------------------------------------------------------------------------
def gen_small_exhaustive(universe, maxlen):
    """all sorted, non-overlapping lists of <= maxlen extents with boundaries in
    0..universe (start < end), shared flags all-false plus one flagged variant"""
    pts = list(range(universe + 1))
    exts = [(s, e) for s in pts for e in pts if s < e]
    out = [[]]
    def rec(prefix, lo, depth):
        if depth == maxlen:
            return
        for (s, e) in exts:
            if s >= lo:
                l = prefix + [(s, e)]
                out.append(l)
                rec(l, e, depth + 1)
    rec([], 0, 0)
    return out


def gen_random_merge(rng, n):
    cases = []
    for _ in range(n):
        k = rng.choice([1, 2, 2, 3, 3, 4, 5, 8, 13, 33, 70])
        style = rng.choice(["sorted", "sorted", "sorted", "adjacent", "touching", "overlap", "unsorted", "huge", "page"])
        l = []
        pos = rng.choice([0, 0, 1, 4096, rng.randrange(1 << 20)])
        for i in range(k):
            if style == "page":
                ln = 4096 * rng.randrange(1, 9)
                gap = rng.choice([0, 1, 4096, 8192, 4096 * rng.randrange(1, 300)])
            elif style == "huge":
                ln = rng.randrange(1, 1 << 40)
                gap = rng.choice([0, 1, 2, rng.randrange(1 << 40)])
                if i == 0:
                    pos = rng.choice([1 << 62, (1 << 63) - 5, (1 << 63) + 7, (1 << 64) - (1 << 45)])
            else:
                ln = rng.randrange(1, 50)
                gap = rng.choice([0, 1, 1, 1, 2, 3, rng.randrange(0, 40)])
            if style == "adjacent":
                gap = rng.choice([1, 1, 1, 0, 2])
            if style == "touching":
                gap = rng.choice([0, 0, 1])
            s = pos + gap if i else pos
            e = s + ln
            if e >= (1 << 64) - 1:
                break
            if style == "overlap" and l and rng.random() < 0.5:
                s = max(0, l[-1][1] - rng.randrange(0, 10))
                e = s + ln
            l.append((s, e, rng.random() < 0.3))
            pos = e
        if style == "unsorted":
            rng.shuffle(l)
        cases.append(l)
    return cases


def merge_oracle(inp, outp):
    """The property, checked on the implementation's output (inputs with
    start <= end).  Returns None or a description."""
    # boundaries
    starts = {s for s, _, _ in inp}
    ends = {e for _, e, _ in inp}
    for s, e, _ in outp:
        if s not in starts:
            return "output start %d is not an input start" % s
        if e not in ends:
            return "output end %d is not an input end" % e
    # coverage: compare on the critical points (every boundary and boundary±1)
    pts = set()
    for s, e, _ in list(inp) + list(outp):
        for d in (-1, 0, 1):
            for v in (s + d, e + d):
                if v >= 0:
                    pts.add(v)
    def cov(l, i):
        return any(s <= i < e for s, e, _ in l)
    gaps = set()
    for (ps, pe, _), (es, ee, _) in zip(inp, inp[1:]):
        if es == pe + 1:
            gaps.add(pe)
    for i in sorted(pts):
        ci, co = cov(inp, i), cov(outp, i)
        if ci and not co:
            return "byte %d covered by the input is not covered by the merged output" % i
        if co and not ci and i not in gaps:
            return "byte %d is added by merging and is not a one-byte adjacency gap" % i
    # ordered / non-overlapping preserved
    def sorted_disjoint(l):
        return all(a[0] <= a[1] for a in l) and all(a[1] <= b[0] for a, b in zip(l, l[1:]))
    if sorted_disjoint(inp) and not sorted_disjoint(outp):
        return "sorted non-overlapping input gave unsorted/overlapping output"
    if len(outp) > len(inp):
        return "output longer than input"
    return None


def run_merge(ctx, out):
    rng = ctx.rng
    quick = ctx.tier == "quick"
    small = gen_small_exhaustive(5 if quick else 7, 3)
    cases = [[(s, e, False) for s, e in l] for l in small]
    # shared-flag variants of the small lists with >= 2 extents
    for l in small:
        if len(l) >= 2 and rng.random() < (0.2 if quick else 1.0):
            cases.append([(s, e, rng.random() < 0.5) for s, e in l])
    cases += gen_random_merge(rng, 2500 if quick else 40000)
    out.extra["merge_exhaustive_universe"] = "all sorted lists of <=3 extents with boundaries in 0..%d: %d lists" % (
        5 if quick else 7, len(small))
    # implementation
    inp_text = "\n".join(" ".join("%d %d %d" % (s, e, 1 if sh else 0) for s, e, sh in l) for l in cases) + "\n"
    r = subprocess.run([ctx.bins["probe"], "merge"], input=inp_text, capture_output=True, text=True, timeout=600)
    impl_lines = r.stdout.split("\n")[:len(cases)]
    if len(impl_lines) != len(cases):
        raise core.BuildError("probe merge returned %d lines for %d cases: %s" % (len(impl_lines), len(cases), r.stderr[-500:]))
    # model
    enc = [[x for s, e, sh in l for x in (s, e, 1 if sh else 0)] for l in cases]
    model = core.run_model("run_merge", enc, shard=300, tag="c19m") if ctx.model_ok else [None] * len(cases)
    for l, line, mo in zip(cases, impl_lines, model):
        nontriv = len(l) >= 2 and any(b[0] in (a[1], a[1] + 1) for a, b in zip(l, l[1:]))
        out.case(("merge", tuple(l)), nontriv)
        out.count("merge_len_%s" % (len(l) if len(l) < 6 else "6+"))
        if not line.startswith("OK"):
            out.violation("merge_extents %s on %s" % (line, l), dict(fn="merge_extents", input=l, impl=line))
            continue
        nums = [int(t) for t in line.split()[1:]]
        impl = [(nums[i], nums[i + 1], nums[i + 2] != 0) for i in range(0, len(nums), 3)]
        if mo is not None and nums != mo:
            out.corr("R0-merge", l, mo, nums)
        why = merge_oracle(l, impl)
        if why:
            out.violation("merge_extents: " + why, dict(fn="merge_extents", input=l, impl=impl, why=why))
    out.sample(dict(kind="merge", input=cases[len(small) + 3], impl=impl_lines[len(small) + 3]))


# ---------------------------------------------------------------------------
# map_extents / next_sparse_segments on real files
# ---------------------------------------------------------------------------
def gen_layouts(rng, quick):
    B = 4096
    lay = []
    # (size, [(s,e)]) — boundary corpus first
    lay.append((0, []))
    lay.append((1, [(0, 1)]))
    lay.append((B, [(0, B)]))
    lay.append((B + 1, [(0, B + 1)]))
    lay.append((10 * B, []))                                   # entirely empty
    lay.append((10 * B + 123, [(0, B)]))                       # data at the very start
    lay.append((10 * B + 123, [(9 * B, 10 * B + 123)]))        # data at the very end, odd size
    lay.append((64 * B, [(0, B), (63 * B, 64 * B)]))
    lay.append((64 * B + 7, [(B, 2 * B), (5 * B, 9 * B), (40 * B, 64 * B + 7)]))
    for n in (31, 32, 33, 64, 65, 97):                          # page boundaries of FIEMAP (32 per page)
        lay.append(((2 * n + 1) * B, [(2 * i * B, (2 * i + 1) * B) for i in range(n)]))
        lay.append(((2 * n) * B - 100, [((2 * i + 1) * B, min((2 * i + 2) * B, 2 * n * B - 100)) for i in range(n)]))
    # offsets beyond 2^31, 2^32 and 2^33 (sparse: a few blocks of data each)
    G = 1 << 30
    lay.append((5 * G + 123, [(0, B), (4 * G - B, 4 * G + B), (4 * G + G // 2, 4 * G + G // 2 + 3 * B), (5 * G, 5 * G + 123)]))
    lay.append((8 * G + B, [(8 * G, 8 * G + B)]))
    lay.append((2 * G + 5 * B, [(2 * G - B, 2 * G + 2 * B)]))
    lay.append((4 * G + 2 * B, [(B, 2 * B), (4 * G, 4 * G + 2 * B)]))
    nrand = 30 if quick else 600
    for _ in range(nrand):
        nseg = rng.choice([0, 1, 2, 3, 5, 8, 20, 34, 70])
        pos = rng.choice([0, 0, B, 3 * B])
        segs = []
        for _i in range(nseg):
            ln = B * rng.randrange(1, 5)
            segs.append((pos, pos + ln))
            pos += ln + B * rng.randrange(1, 6)
        size = (segs[-1][1] if segs else 0) + rng.choice([0, 0, B, 7 * B, 12345])
        if segs and rng.random() < 0.4:
            cut = rng.randrange(1, B)
            s, e = segs[-1]
            segs[-1] = (s, e - cut)
            if rng.random() < 0.5:
                size = e - cut
        lay.append((size, segs))
    return lay


def parse_exts(line):
    nums = [int(t) for t in line.split()[1:]]
    return [(nums[i], nums[i + 1], nums[i + 2]) for i in range(0, len(nums), 3)]


def run_files(ctx, out):
    rng = ctx.rng
    quick = ctx.tier == "quick"
    d = ctx.work.fresh("c19files")
    lays = gen_layouts(rng, quick)
    B_ = 4096
    files = []
    volatile = set()      # files whose extent list may change under our feet (writeback): direct oracle only
    for k, (size, segs) in enumerate(lays):
        p = os.path.join(d, "f%d" % k)
        fsutil.make_file(p, size, segs, tag=k + 1)
        files.append(p)
    # preallocated (fallocate) regions holding freshly written, NOT yet synced data: the kernel reports such
    # extents with the UNWRITTEN flag while the data sits in the page cache; they are data all the same
    MiB = 1 << 20
    for (size, regions) in [(8 * MiB, [(MiB, 64 * 1024)]), (8 * MiB + 1234, [(MiB, 128 * 1024), (8 * MiB - 65536, 65536 + 1234)]),
                            (3 * MiB, [(0, 4096 * 3), (2 * MiB, 4096 * 5)])]:
        p = os.path.join(d, "f%d" % len(files))
        fd = os.open(p, os.O_CREAT | os.O_RDWR, 0o644)
        try:
            os.ftruncate(fd, size)
            segs = []
            for (off, ln) in regions:
                a0 = off - off % 4096
                os.posix_fallocate(fd, a0, (off + ln - a0 + 4095) // 4096 * 4096 if off + ln < size else size - a0)
                data = fsutil.tagged_bytes(len(files) + 1, off, min(ln, size - off))
                os.pwrite(fd, data, off)
                segs.append((off, off + len(data)))
        finally:
            os.close(fd)      # no fsync: the probes below run while the data is still dirty
        lays.append((size, segs))
        files.append(p)
        volatile.add(p)
        out.count("preallocated_unsynced_files")
    # more than one FIEMAP page of extents ALREADY on disk, plus blocks written a moment ago and not yet flushed (delayed
    # allocation) that land on the second / third page of the map, at the end and in the middle
    for (nsync, fresh) in ((40, [40]), (70, [70, 35]), (33, [33])):
        p = os.path.join(d, "f%d" % len(files))
        segs = [(2 * i * B_, (2 * i + 1) * B_) for i in range(nsync + 1) if i not in fresh]
        size = (2 * (nsync + 1) + 1) * B_
        fsutil.make_file(p, size, segs, tag=len(files) + 1, sync=True)
        fd = os.open(p, os.O_WRONLY)
        try:
            for i in fresh:
                os.pwrite(fd, fsutil.tagged_bytes(len(files) + 1, 2 * i * B_, B_), 2 * i * B_)
        finally:
            os.close(fd)          # no fsync
        lays.append((size, sorted(segs + [(2 * i * B_, (2 * i + 1) * B_) for i in fresh])))
        files.append(p)
        volatile.add(p)
        out.count("flushed_pages_plus_unflushed_blocks")
    # implementation
    r1 = subprocess.run([ctx.bins["probe"], "extents"] + files, capture_output=True, text=True, timeout=600)
    r2 = subprocess.run([ctx.bins["probe"], "segments"] + files, capture_output=True, text=True, timeout=600)
    ext_lines = r1.stdout.split("\n")[:len(files)]
    seg_lines = r2.stdout.split("\n")[:len(files)]
    if len(ext_lines) != len(files) or len(seg_lines) != len(files):
        raise core.BuildError("probe extents/segments output short: %s %s" % (r1.stderr[-300:], r2.stderr[-300:]))
    # what the kernel says, obtained by the harness itself
    raws = [fsutil.raw_fiemap(p) for p in files]
    seeks = [fsutil.seek_layout(p) for p in files]
    mcases_e, mcases_s = [], []
    for raw in raws:
        enc = []
        for i, (lg, ln, fl) in enumerate(raw or []):
            enc += [lg, ln, 1 if fl & fsutil.FIEMAP_EXTENT_LAST else 0, 1 if fl & fsutil.FIEMAP_EXTENT_SHARED else 0]
        mcases_e.append(enc)
    for size, L in seeks:
        mcases_s.append([size] + [x for se in L for x in se])
    if ctx.model_ok:
        me = core.run_model("run_map_extents", mcases_e, shard=40, tag="c19e")
        ms = core.run_model("run_segments", mcases_s, shard=40, tag="c19s")
    else:
        me = ms = [None] * len(files)
    contract_bad = 0
    for k, p in enumerate(files):
        size, segs = lays[k]
        raw = raws[k]
        nex = len(raw or [])
        out.case(("file", size, tuple(segs)), nontrivial=len(segs) >= 1)
        out.count("file_extents_%s" % ("0" if nex == 0 else "1-32" if nex <= 32 else "33-64" if nex <= 64 else "65+"))
        # --- map_extents
        el = ext_lines[k]
        if el.startswith("SOME"):
            impl = parse_exts(el)
            if me[k] is not None:
                if me[k][0] != 1:
                    contract_bad += 1      # the kernel's list is outside the contract; no model claim
                elif p in volatile:
                    pass                   # the harness's and the probe's FIEMAP calls may straddle a writeback
                elif me[k][1:] != [0] + [x for t in impl for x in t]:
                    out.corr("R0-map_extents", dict(size=size, segs=segs, raw=raw), me[k], el)
            rng_list = [(s, e) for s, e, _ in impl]
            ok, bad = fsutil.zero_outside(p, rng_list, size, written=segs)
            if not ok:
                out.violation("map_extents hides data: byte %d of a %d-byte file is non-zero and outside every reported extent"
                              % (bad, size), dict(fn="map_extents", size=size, data=segs, impl=impl, bad_offset=bad))
            if any(a[1] > b[0] for a, b in zip(rng_list, rng_list[1:])) or any(s > e for s, e in rng_list):
                out.violation("map_extents output not ordered/non-overlapping",
                              dict(fn="map_extents", size=size, data=segs, impl=impl))
            # merged
            mtxt = " ".join("%d %d %d" % t for t in impl) + "\n"
            mr = subprocess.run([ctx.bins["probe"], "merge"], input=mtxt, capture_output=True, text=True).stdout.strip()
            if mr.startswith("OK"):
                merged = parse_exts(mr)
                ok, bad = fsutil.zero_outside(p, [(s, e) for s, e, _ in merged], size, written=segs)
                if not ok:
                    out.violation("merged extent map hides data at byte %d" % bad,
                                  dict(fn="merge_extents(map_extents)", size=size, data=segs, impl=merged, bad_offset=bad))
            else:
                out.violation("merge_extents(map_extents(file)) -> %s" % mr, dict(fn="merge", size=size, data=segs, impl=mr))
        elif el.startswith("NONE"):
            if raw is not None:
                out.violation("map_extents reports 'unsupported' on a file system with FIEMAP",
                              dict(fn="map_extents", size=size, data=segs, impl=el))
        else:
            out.violation("map_extents failed: " + el, dict(fn="map_extents", size=size, data=segs, impl=el))
        # --- segments
        sl = seg_lines[k]
        if sl.startswith("OK"):
            nums = [int(t) for t in sl.split()[1:]]
            impl = [(nums[i], nums[i + 1]) for i in range(0, len(nums), 2)]
            if ms[k] is not None:
                if ms[k][0] != 1:
                    contract_bad += 1
                elif p in volatile:
                    pass
                elif ms[k][1:] != [0] + nums:
                    out.corr("R0-segments", dict(size=size, segs=segs, kernel_layout=seeks[k][1]), ms[k], sl)
            ok, bad = fsutil.zero_outside(p, impl, size, written=segs)
            if not ok:
                out.violation("segment walk hides data: byte %d non-zero outside reported segments" % bad,
                              dict(fn="next_sparse_segments", size=size, data=segs, impl=impl, bad_offset=bad))
            if any(a[1] > b[0] for a, b in zip(impl, impl[1:])) or any(s > e for s, e in impl) or any(e > size for _, e in impl):
                out.violation("segments not ordered/non-overlapping/inside the file",
                              dict(fn="next_sparse_segments", size=size, data=segs, impl=impl))
        else:
            out.violation("segment walk failed: " + sl, dict(fn="next_sparse_segments", size=size, data=segs, impl=sl))
        os.unlink(p)
    out.extra["kernel_answers_outside_contract"] = contract_bad
    out.sample(dict(kind="file", size=lays[8][0], data=lays[8][1], extents=ext_lines[8], segments=seg_lines[8]))
    out.sample(dict(kind="file", size=lays[11][0], n_data_ranges=len(lays[11][1]), n_extents=len(raws[11] or [])))


def run(ctx, out):
    out.rule = ("merge: all sorted lists over a small offset universe + random lists (sorted/adjacent/touching/overlapping/"
                "unsorted/near-2^64); non-trivial = >=2 extents with a touching or adjacent pair. files: real ext4 files "
                "with 0..97 data ranges (FIEMAP pages of 32), data at start/end, odd sizes, data beyond 2^31 / 2^32 / 2^33 in sparse files of up to 8 GiB, more than a page of flushed extents plus unflushed blocks on later pages; non-trivial = >=1 data range. "
                "refused answers: lseek / FIEMAP failing with EINVAL EIO ENOSYS EOVERFLOW EBADF / EIO EINVAL EBADR ENOMEM at the n-th call of a walk. "
                "distinct = distinct input list / layout.")
    run_merge(ctx, out)
    run_files(ctx, out)
    run_refused(ctx, out)


def run_refused(ctx, out):
    """The kernel REFUSES an answer (lseek SEEK_DATA / SEEK_HOLE with EINVAL, EIO, ENOSYS, EOVERFLOW, EBADF; the FIEMAP ioctl with
    EIO, EINVAL, EBADR, ENOMEM) at the n-th call of a walk over a sparse file: a refusal is not `no more data` — either the
    function reports an error, or what it reports still hides no data."""
    import xcp
    rng = ctx.rng
    quick = ctx.tier == "quick"
    sup = core.build_sup()
    d = ctx.work.fresh("c19refused")
    B = 4096
    segs = [(0, 2 * B), (40 * B, 43 * B), (100 * B, 100 * B + 777), (170 * B, 171 * B)]
    size = 200 * B + 5
    p = os.path.join(d, "sparse.bin")
    fsutil.make_file(p, size, segs, tag=3)
    for (cmd, sysn, errnos, nths) in [("segments", "lseek", (22, 5, 38, 75, 9), (1, 2, 3, 5, 6)), ("extents", "ioctl", (5, 22, 53, 12), (1,))]:
        for errno in errnos:
            for nth in (nths if not quick else nths[:3]):
                r = xcp.run_supervised(sup, [ctx.bins["probe"], cmd, p], d, d, rules=[("fail", errno, 0, sysn, nth, "=" + p)], tag="rf", timeout_ms=20000)
                fired = any(e.get("inj") for e in r.trace)
                out.case(("refused", cmd, errno, nth), nontrivial=fired)
                out.count("refused_answers_%s" % cmd)
                line = (r.stdout.split("\n") + [""])[0]
                rep = dict(fn="next_sparse_segments walk" if cmd == "segments" else "map_extents", size=size, data=segs, refused=(sysn, nth, errno), impl=line)
                if not fired:
                    continue
                if line.startswith("OK") or line.startswith("SOME"):
                    if line.startswith("OK"):
                        nums = [int(t) for t in line.split()[1:]]
                        ranges = [(nums[i], nums[i + 1]) for i in range(0, len(nums), 2)]
                    else:
                        ranges = [(s_, e_) for s_, e_, _ in parse_exts(line)]
                    ok, bad = fsutil.zero_outside(p, ranges, size)
                    if not ok:
                        out.violation("%s hides data after the kernel refused call #%d of %s with errno %d: byte %d is non-zero and outside every "
                                      "reported range (a refusal was read as `no more data`)" % (rep["fn"], nth, sysn, errno, bad), dict(rep, bad_offset=bad))

