"""treecase.py — tree-level cases: encode real source trees for the Gallina
walker model, run libxcp's tree_walker (probe walk) and the real xcp, compare;
plus an independent Python statement of cp's mapping rule (the direct oracle)."""
import errno
import os
import stat
import subprocess

import core
import trees
import xcp

FT_CODE = {"sock": 3, "fifo": 4, "chr": 5, "blk": 6}


def kind_of(st):
    m = st.st_mode
    if stat.S_ISREG(m):
        return "file"
    if stat.S_ISDIR(m):
        return "dir"
    if stat.S_ISLNK(m):
        return "link"
    if stat.S_ISSOCK(m):
        return "sock"
    if stat.S_ISFIFO(m):
        return "fifo"
    if stat.S_ISCHR(m):
        return "chr"
    if stat.S_ISBLK(m):
        return "blk"
    return "other"


def enc_name(b):
    return [len(b)] + list(b)


def enc_rel(rel):
    out = [len(rel)]
    for n in rel:
        out += enc_name(n)
    return out


def resolve(path):
    """('dangling'|'loop'|'ok', realpath)"""
    try:
        os.stat(path)
    except OSError as e:
        if e.errno == errno.ELOOP:
            return "loop", None
        return "dangling", None
    return "ok", os.path.realpath(path)


def scan(path, deref, stack=None, shallow=False):
    """Encode the tree at `path` (bytes).  Returns (encoding, entries) where
    entries = [(rel tuple, kind, info)] in pre-order as the walker would
    dispatch them (kind after dereferencing when deref)."""
    st = os.lstat(path)
    k = kind_of(st)
    stack = stack or []
    if k == "file":
        return [0, st.st_size], [((), "file", st.st_size)]
    if k in FT_CODE:
        code = FT_CODE[k]
        return ([3, code] if code <= 5 else [4, code]), [((), k, None)]
    if k == "other":
        return [4, 7], [((), "other", None)]
    if k == "dir":
        if shallow:
            return [1, 0], [((), "dir", None)]
        ident = (st.st_dev, st.st_ino)
        names = [e.name for e in os.scandir(path)]
        enc = [1, len(names)]
        ents = [((), "dir", None)]
        for n in names:
            ce, cents = scan(os.path.join(path, n), deref, stack + [ident])
            enc += enc_name(n) + ce
            ents += [((n,) + r, kk, ii) for r, kk, ii in cents]
        return enc, ents
    # symlink
    text = os.readlink(path)
    enc = [2, len(text)] + list(text)
    status, real = resolve(path)
    if status == "dangling":
        return enc + [0], [((), "broken" if deref else "link", text)]
    if status == "loop":
        return enc + [1], [((), "broken" if deref else "link", text)]
    rst = os.stat(path)
    if not deref:
        if stat.S_ISDIR(rst.st_mode):
            return enc + [2, 1, 0], [((), "link", text)]
        return enc + [2, 0, 0], [((), "link", text)]
    if stat.S_ISDIR(rst.st_mode) and (rst.st_dev, rst.st_ino) in stack:
        return enc + [1], [((), "broken", text)]
    te, tents = scan(os.fsencode(real) if isinstance(path, bytes) else real, deref, stack)
    return enc + [2] + te, tents


def model_walk(cases):
    """cases: list of (no_clobber, deref, ignored rels, existing rels, tree encoding) -> decoded results"""
    inputs = []
    for nc, dr, ign, ex, tenc in cases:
        l = [int(nc), int(dr), len(ign)]
        for r in ign:
            l += enc_rel(r)
        l.append(len(ex))
        for r in ex:
            l += enc_rel(r)
        inputs.append(l + tenc)
    res = core.run_model("run_walk", inputs, shard=12, tag="walk")
    return [decode_walk(r) for r in res]


def _dec_rel(l, i):
    n = l[i]
    i += 1
    rel = []
    for _ in range(n):
        ln = l[i]
        rel.append(bytes(l[i + 1:i + 1 + ln]))
        i += 1 + ln
    return tuple(rel), i


def decode_walk(l):
    if len(l) < 2:
        return dict(ok=None, wf=None, acts=[("decode-error", l)])
    ok, wf = l[0], l[1]
    acts = []
    i = 2
    while i < len(l):
        t = l[i]
        if t == 0:
            acts.append(("size", l[i + 1]))
            i += 2
        elif t == 1:
            ln = l[i + 1]
            rel, i = _dec_rel(l, i + 2)
            acts.append(("copy", rel, ln))
        elif t == 2:
            tl = l[i + 1]
            text = bytes(l[i + 2:i + 2 + tl])
            rel, i = _dec_rel(l, i + 2 + tl)
            acts.append(("link", rel, text))
        elif t == 3:
            rel, i = _dec_rel(l, i + 1)
            acts.append(("mkdir", rel))
        elif t == 4:
            ft = l[i + 1]
            rel, i = _dec_rel(l, i + 2)
            acts.append(("special", rel, ft))
        elif t == 5:
            c = l[i + 1]
            rel, i = _dec_rel(l, i + 2)
            acts.append(("err", rel, c))
        else:
            acts.append(("decode-error", l[i:i + 10]))
            break
    return dict(ok=ok, wf=wf, acts=acts)


def rust_join(base, rel):
    """PathBuf::join(base, relative path made of normal components) as bytes"""
    p = base
    for n in rel:
        if p == b"":
            p = n
        elif p.endswith(b"/"):
            p = p + n
        else:
            p = p + b"/" + n
    return p


def last_component(src):
    """bytes of Path::components().next_back() as an OsStr"""
    parts = [s for s in src.split(b"/") if s not in (b"",)]
    # drop non-leading "."
    comps = []
    rooted = src.startswith(b"/")
    for i, s in enumerate(parts):
        if s == b"." and not (i == 0 and not rooted and src.split(b"/")[0] == b"."):
            continue
        comps.append(s)
    if not comps:
        return b"/" if rooted else None
    return comps[-1]


def target_base(dest, src, no_target_dir):
    lc = last_component(src)
    if lc is None:
        return None
    if os.path.isdir(dest) and not no_target_dir:
        if lc == b"/":
            return b"/"
        if lc == b".":
            return dest if dest else b"."
        if lc == b"..":
            return dest          # like cp: dir/.. goes into the destination itself, never into dest/..
        return rust_join(dest, (lc,))
    return dest


def run_probe_walk(ctx, flags, sources, dest, cwd):
    argv = [ctx.bins["probe"], "walk"] + flags + ["--"] + [os.fsdecode(s) for s in sources] + [os.fsdecode(dest)]
    r = subprocess.run(argv, cwd=cwd, capture_output=True, timeout=120, env=dict(os.environ, RUST_BACKTRACE="0"))
    ops, sizes, ret = [], [], None
    for line in r.stdout.decode("utf-8", "replace").split("\n"):
        p = line.split(" ")
        if p[0] == "RET":
            ret = p[1]
            reterr = " ".join(p[2:])
        elif p[0] in ("COPY", "LINK", "SPECIAL"):
            ops.append((p[0].lower(), bytes.fromhex(p[1]) if p[1] != "-" else b"", bytes.fromhex(p[2]) if p[2] != "-" else b""))
        elif p[0] == "SIZE":
            sizes.append(int(p[1]))
    return dict(ret=ret, ops=ops, sizes=sizes, stderr=r.stderr.decode("utf-8", "replace")[-300:], argv=argv)


def lexists_rels(tbase, entries):
    return [rel for rel, _, _ in entries if os.path.lexists(rust_join(tbase, rel))]


# ---------------------------------------------------------------------------
# independent statement of cp's mapping rule (direct oracle for C02/C13)
# ---------------------------------------------------------------------------
def expected_dest(sources, dest, no_target_dir, deref):
    """{absolute bytes path: (kind, info)} for every source entry, by cp's rule:
    into an existing directory -> dest/basename, otherwise (or with -T) dest itself.
    Written against os.walk, not against the model."""
    exp = {}
    dest_is_dir = os.path.isdir(dest)
    for s in sources:
        base = os.path.join(dest, os.path.basename(s.rstrip(b"/")) or s) if (dest_is_dir and not no_target_dir) else dest

        def visit(sp, tp):
            st = os.stat(sp) if deref else os.lstat(sp)
            k = kind_of(st)
            if k == "file":
                exp[tp] = ("file", sp)
            elif k == "link":
                exp[tp] = ("link", os.readlink(sp))
            elif k == "dir":
                exp[tp] = ("dir", None)
                for n in os.listdir(sp):
                    visit(os.path.join(sp, n), os.path.join(tp, n))
            else:
                exp[tp] = (k, st.st_rdev if k in ("chr", "blk") else None)
        visit(s, base)
    return exp


def check_expected(exp):
    """compare the real destination with `exp`; returns a description or None"""
    for tp, (k, info) in exp.items():
        try:
            st = os.lstat(tp)
        except OSError:
            return "missing %r (expected %s)" % (tp, k)
        got = kind_of(st)
        if got != k:
            return "%r is a %s, expected a %s" % (tp, got, k)
        if k == "file":
            try:
                if open(tp, "rb").read() != open(info, "rb").read():
                    return "file %r differs from its source %r" % (tp, info)
            except OSError as e:
                return "cannot read %r: %s" % (tp, e)
        elif k == "link" and os.readlink(tp) != info:
            return "link %r has target %r, expected %r" % (tp, os.readlink(tp), info)
    return None
