"""xcp.py — run the real xcp (or the probe) under the ptrace supervisor and
project the trace to abstract events."""
import json
import os
import stat
import subprocess

import core
import fsutil

ERRNO = dict(EPERM=1, ENOENT=2, EINTR=4, EIO=5, ENXIO=6, EACCES=13, EEXIST=17, EXDEV=18, EINVAL=22, EMFILE=24,
             ETXTBSY=26, ENOSPC=28, EROFS=30, ENOSYS=38, EOPNOTSUPP=95)
FICLONE = 0x40049409
FS_IOC_FIEMAP = 0xC020660B


class Run:
    def __init__(self, exit, trace, stdout, stderr, meta):
        self.exit = exit
        self.trace = trace
        self.stdout = stdout
        self.stderr = stderr
        self.meta = meta          # killed / timeout markers

    def events(self, sys=None, p1=None, p2=None):
        for e in self.trace:
            if sys is not None and e["sys"] != sys and e["sys"] not in (sys if isinstance(sys, (list, tuple, set)) else ()):
                continue
            if p1 is not None and e["p1"] != p1:
                continue
            if p2 is not None and e["p2"] != p2:
                continue
            yield e


def _fix(s):
    return os.fsdecode(s.encode("latin-1"))


def run_supervised(sup, argv, cwd, prefix, rules=None, seed=None, hold_permille=0, hold_maxms=0,
                   timeout_ms=30000, env=None, tag="t", umask=None, fd9=None, nofile=None, cpus=None,
                   during=None, during_delay=0.5, stdout_path=None):
    """rules: list of (action, p1, p2, sys, nth, path).  during: a callable the ENVIRONMENT runs `during_delay` seconds
    after the program was started (another process renaming / removing / rewriting files while the copy is under way;
    combine with a `hold` rule that keeps the program at a known point for longer than the delay)"""
    tdir = os.path.join(cwd, ".sup")
    os.makedirs(tdir, exist_ok=True)
    tpath = os.path.join(tdir, tag + ".trace")
    cmd = [sup, "-o", tpath, "-p", prefix, "-t", str(timeout_ms)]
    if rules:
        rpath = os.path.join(tdir, tag + ".rules")
        with open(rpath, "wb") as f:
            for (act, a, b, sysn, nth, path) in rules:
                pb = os.fsencode(path).replace(b"\\", b"\\\\").replace(b"\n", b"\\n")
                f.write(("%s %d %d %s %d " % (act, a, b, sysn, nth)).encode() + pb + b"\n")
        cmd += ["-r", rpath]
    if seed is not None and hold_permille:
        cmd += ["-S", str(seed), "-P", str(hold_permille), "-M", str(hold_maxms)]
    cmd += ["--"] + argv
    e = dict(os.environ, RUST_BACKTRACE="0")
    if env:
        e.update(env)
    def pre():
        if umask is not None:
            os.umask(umask)
        if fd9 is not None:
            fd = os.open(fd9, os.O_WRONLY | os.O_CREAT | os.O_APPEND, 0o644)
            os.dup2(fd, 9, inheritable=True)
        if nofile is not None:
            import resource
            resource.setrlimit(resource.RLIMIT_NOFILE, (nofile, nofile))
        if cpus:
            os.sched_setaffinity(0, cpus)
    timer = None
    if during is not None:
        import threading
        timer = threading.Timer(during_delay, during)
        timer.start()
    try:
        if stdout_path is not None:
            # the program's standard output goes to a file of the caller's choice (e.g. /dev/full: every write fails with ENOSPC)
            with open(stdout_path, "wb") as so_f:
                r = subprocess.run(cmd, cwd=cwd, stdout=so_f, stderr=subprocess.PIPE, env=e, timeout=timeout_ms / 1000.0 + 30, preexec_fn=pre,
                                   close_fds=(fd9 is None))
            code, so, se = r.returncode, b"", r.stderr
        else:
            r = subprocess.run(cmd, cwd=cwd, capture_output=True, env=e, timeout=timeout_ms / 1000.0 + 30, preexec_fn=pre,
                               close_fds=(fd9 is None))
            code, so, se = r.returncode, r.stdout, r.stderr
    except subprocess.TimeoutExpired as ex:
        code, so, se = 124, ex.stdout or b"", ex.stderr or b""
    finally:
        if timer is not None:
            timer.cancel()
            timer.join()
    if code == 99 and se.startswith(b"sup:"):
        # the supervisor rejected its own input: a harness problem, never a verdict about xcp
        raise core.BuildError("supervisor error: %s (rules %r)" % (se.decode("utf-8", "replace").strip(), rules))
    trace = []
    meta = {}
    try:
        with open(tpath, "r") as f:
            for line in f:
                line = line.strip()
                if not line:
                    continue
                try:
                    ev = json.loads(line)
                except ValueError:
                    continue
                if "sys" in ev:
                    ev["p1"] = _fix(ev["p1"])
                    ev["p2"] = _fix(ev["p2"])
                    trace.append(ev)
                else:
                    meta.update(ev)
    except OSError:
        pass
    return Run(code, trace, so.decode("utf-8", "replace"), se.decode("utf-8", "replace"), meta)


def neutral(rng, noprogress=True, workers=True, force=True):
    """Options and run-time conditions no property's outcome may depend on: (extra flags, -w value or None, cpu set or
    None).  -w 0 = `as many workers as CPUs`; the cpu set restricts the run to ONE usable CPU."""
    flags = []
    if rng.random() < 0.25:
        flags.append(rng.choice(["-v", "-vv"]))
    if force and rng.random() < 0.25:
        flags.append(rng.choice(["-f", "--force"]))
    if noprogress and rng.random() < 0.3:
        flags.append("--no-progress")
    w = "0" if (workers and rng.random() < 0.25) else None
    cpus = None
    if rng.random() < 0.3:
        cpus = {rng.choice(sorted(os.sched_getaffinity(0)))}
    return flags, w, cpus


def run_plain(argv, cwd, timeout=60, env=None, umask=None, cpus=None):
    e = dict(os.environ, RUST_BACKTRACE="0")
    if env:
        e.update(env)
    def pre():
        if umask is not None:
            os.umask(umask)
        if cpus:
            os.sched_setaffinity(0, cpus)
    try:
        r = subprocess.run(argv, cwd=cwd, capture_output=True, env=e, timeout=timeout, preexec_fn=pre)
        return Run(r.returncode, [], r.stdout.decode("utf-8", "replace"), r.stderr.decode("utf-8", "replace"), {})
    except subprocess.TimeoutExpired as ex:
        return Run(124, [], "", "timeout", {"timeout": 1})


def s64(v):
    return v - (1 << 64) if v >= (1 << 63) else v


# ---------------------------------------------------------------------------
# abstract projection of a trace, per destination file
# ---------------------------------------------------------------------------
MUTATING = {"ftruncate", "truncate", "write", "pwrite64", "copy_file_range", "fchmod", "fchmodat", "chmod",
            "fchown", "fchownat", "chown", "lchown", "utimensat", "rename", "renameat", "renameat2", "unlink",
            "unlinkat", "rmdir", "mkdir", "mkdirat", "mknod", "mknodat", "symlink", "symlinkat", "link", "linkat",
            "fsetxattr", "setxattr", "lsetxattr", "fallocate", "sendfile"}


def is_mutating(ev):
    s = ev["sys"]
    if s in MUTATING:
        return True
    if s in ("openat", "open"):
        flags = ev["a"][2] if s == "openat" else ev["a"][1]
        return bool(flags & (os.O_CREAT | os.O_TRUNC))
    if s == "ioctl" and ev["a"][1] == FICLONE:
        return True
    return False


def xfer_events(run, src, dst):
    """copy_file_range calls from src to dst: [(eseq, tid, pos_in, pos_out, req, ret)]"""
    out = []
    for e in run.trace:
        if e["sys"] == "copy_file_range" and e["p1"] == src and e["p2"] == dst and e.get("ret") is not None:
            out.append((e["e"], e["tid"], e["pi"], e["po"], e["a"][4], e["ret"]))
    return out


def file_events(run, path):
    """ordered abstract events on one destination path"""
    out = []
    for e in run.trace:
        s = e["sys"]
        if e["p1"] != path and e["p2"] != path:
            continue
        if s in ("openat", "open") and e["p1"] == path:
            out.append(("open", e))
        elif s == "ftruncate":
            out.append(("truncate", e))
        elif s == "copy_file_range" and e["p2"] == path:
            out.append(("data", e))
        elif s in ("write", "pwrite64") and e["p1"] == path:
            out.append(("data", e))
        elif s == "ioctl" and e["a"][1] == FICLONE and e["p1"] == path:
            out.append(("clone", e))
        elif s in ("fchmod",):
            out.append(("chmod", e))
        elif s in ("fchown",):
            out.append(("chown", e))
        elif s == "utimensat":
            out.append(("utimens", e))
        elif s == "fsetxattr":
            out.append(("setxattr", e))
        elif s in ("fsync", "fdatasync"):
            out.append(("fsync", e))
        elif s == "close" and e["p1"] == path:
            out.append(("close", e))
        elif s in ("rename", "renameat", "renameat2"):
            out.append(("rename", e))
        elif s in ("unlink", "unlinkat"):
            out.append(("unlink", e))
    return out


# ---------------------------------------------------------------------------
# snapshots
# ---------------------------------------------------------------------------
def snapshot(root, content=True, xattrs=True):
    """{relative path: dict(kind, mode, uid, gid, size, mtime_ns, sha, link, rdev, xattr, blocks, ino, nlink)}"""
    snap = {}

    def visit(p, rel):
        try:
            st = os.lstat(p)
        except OSError:
            return
        m = st.st_mode
        ent = dict(mode=stat.S_IMODE(m), uid=st.st_uid, gid=st.st_gid, ino=st.st_ino, nlink=st.st_nlink)
        if stat.S_ISDIR(m):
            ent["kind"] = "dir"
        elif stat.S_ISREG(m):
            ent["kind"] = "file"
            ent["size"] = st.st_size
            ent["mtime_ns"] = st.st_mtime_ns
            ent["blocks"] = st.st_blocks
            if content:
                try:
                    ent["sha"] = fsutil.sha(p)
                except OSError as ex:
                    ent["sha"] = "unreadable:%s" % ex.errno
        elif stat.S_ISLNK(m):
            ent["kind"] = "link"
            ent["link"] = os.readlink(p)
        elif stat.S_ISFIFO(m):
            ent["kind"] = "fifo"
        elif stat.S_ISSOCK(m):
            ent["kind"] = "sock"
        elif stat.S_ISCHR(m):
            ent["kind"] = "chr"
            ent["rdev"] = st.st_rdev
        elif stat.S_ISBLK(m):
            ent["kind"] = "blk"
            ent["rdev"] = st.st_rdev
        else:
            ent["kind"] = "other"
        if xattrs and ent["kind"] in ("file", "dir"):
            try:
                ent["xattr"] = {a: os.getxattr(p, a, follow_symlinks=False).hex()
                                for a in sorted(os.listxattr(p, follow_symlinks=False))}
            except OSError:
                ent["xattr"] = {}
        snap[rel] = ent
        if ent["kind"] == "dir":
            try:
                names = sorted(os.listdir(p))
            except OSError:
                names = []
            for n in names:
                visit(os.path.join(p, n), os.path.join(rel, n) if rel else n)

    visit(root, root[:0])
    return snap


def snap_diff(a, b, ignore=("ino",), ignore_dir_times=True):
    """paths whose entries differ between two snapshots"""
    out = []
    for k in sorted(set(a) | set(b)):
        ea, eb = a.get(k), b.get(k)
        if ea is None or eb is None:
            out.append((k, ea, eb))
            continue
        da = {x: v for x, v in ea.items() if x not in ignore}
        db = {x: v for x, v in eb.items() if x not in ignore}
        if da != db:
            out.append((k, ea, eb))
    return out


def mut_codes(run, path):
    """mutating action codes (Run.act_code) on one destination file, writes collapsed"""
    out = []
    for e in run.trace:
        if e.get("ret") is None:
            continue
        s = e["sys"]
        c = None
        if e["ret"] < 0 and not (s == "ioctl" and e["a"][1] == FICLONE):
            continue
        if s in ("rename", "renameat", "renameat2") and e["p1"] == path:
            c = 1
        elif s in ("openat", "open") and e["p1"] == path and ((e["a"][2] if s == "openat" else e["a"][1]) & os.O_CREAT):
            c = 2
        elif s == "ftruncate" and e["p1"] == path:
            c = 3
        elif s == "ioctl" and e["a"][1] == FICLONE and e["p1"] == path:
            c = 4
        elif (s == "copy_file_range" and e["p2"] == path) or (s in ("write", "pwrite64") and e["p1"] == path):
            c = 5
        elif s == "fchown" and e["p1"] == path:
            c = 6
        elif s == "fsetxattr" and e["p1"] == path:
            c = 7
        elif s == "fchmod" and e["p1"] == path:
            c = 8
        elif s == "utimensat" and e["p1"] == path:
            c = 9
        elif s in ("fsync", "fdatasync") and e["p1"] == path:
            c = 10
        if c is not None and not (c == 5 and out and out[-1] == 5):
            out.append(c)
    return out


def mutation_paths(ev):
    """paths an event may change"""
    s = ev["sys"]
    if s in ("rename", "renameat", "renameat2", "link", "linkat"):
        return [ev["p1"], ev["p2"]]
    if s == "copy_file_range":
        return [ev["p2"]]
    return [ev["p1"]]
