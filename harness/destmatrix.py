"""destmatrix.py — what xcp does with what it FINDS at the mapped destination of a top-level operand.

Every cell of (source kind x state of the destination entry x option) is run on the real binary, both drivers, and the
observed outcome is classified into the vocabulary of coq/theories/DestMatrix.v (created / created after a backup /
written through a link / merged / refused / blocks) and compared with `dest_outcome` evaluated by vm_compute
(correspondence R1-dest-matrix).  Direct oracles, independent of the table: a refused run changes nothing at all; no run
changes a bystander except through a LIVE link found at the path (the file or directory the link designates); only a
regular file onto a FIFO may wait.  Used by C02 (no option, backups), C08 (-n), C09 (backups), C14 (special sources) and
C07 (every cell terminates, the waiting cell apart)."""
import os
import shutil
import socket
import stat

import core
import xcp

SK = ["file", "dir", "link", "special"]
DS = ["absent", "file", "dir-empty", "dir-full", "link-file", "link-dir", "dangling", "special"]
OP = ["none", "no-clobber", "backup"]
OUT = ["created", "created-backed-up", "written-through", "merged", "refused", "blocks"]
OPT_ARGS = {"none": [], "no-clobber": ["-n"], "backup": ["--backup", "numbered"]}
SRC_LINK_TEXT = "../by/../by/target.txt"


def _mk_special(rng, path):
    k = rng.choice(["fifo", "fifo", "sock"])
    if k == "fifo":
        os.mkfifo(path)
    else:
        s = socket.socket(socket.AF_UNIX)
        cwd = os.getcwd()
        try:
            os.chdir(os.path.dirname(path))
            s.bind(os.path.basename(path))
        finally:
            os.chdir(cwd)
            s.close()


def build(rng, d, sk, ds):
    os.makedirs(os.path.join(d, "s"))
    os.makedirs(os.path.join(d, "t"))
    os.makedirs(os.path.join(d, "by", "target.d"))
    open(os.path.join(d, "by", "target.txt"), "wb").write(b"bystander file")
    open(os.path.join(d, "by", "target.d", "inside"), "wb").write(b"inside")
    sp = os.path.join(d, "s", "x")
    if sk == "file":
        open(sp, "wb").write(b"NEW" * rng.randrange(1, 3000))
    elif sk == "dir":
        os.makedirs(sp)
        open(os.path.join(sp, "child"), "wb").write(b"child")
    elif sk == "link":
        os.symlink(SRC_LINK_TEXT, sp)             # a live link (a dangling operand is an invalid invocation: C16); its TEXT differs
                                                  # from that of every link found at the destination
    else:
        _mk_special(rng, sp)
    tp = os.path.join(d, "t", "x")
    if ds == "file":
        open(tp, "wb").write(b"old content")
    elif ds == "dir-empty":
        os.makedirs(tp)
    elif ds == "dir-full":
        os.makedirs(tp)
        open(os.path.join(tp, "keep"), "wb").write(b"keep me")
    elif ds == "link-file":
        os.symlink("../by/target.txt", tp)
    elif ds == "link-dir":
        os.symlink("../by/target.d", tp)
    elif ds == "dangling":
        os.symlink("../by/nothing", tp)
    elif ds == "special":
        os.mkfifo(tp)
    return sp, tp


def lkind(p):
    try:
        st = os.lstat(p)
    except OSError:
        return "absent"
    m = st.st_mode
    return "link" if stat.S_ISLNK(m) else "dir" if stat.S_ISDIR(m) else "file" if stat.S_ISREG(m) else "special"


def _k(ent):
    """snapshot kind -> the table's vocabulary"""
    if ent is None:
        return None
    return "special" if ent["kind"] in ("fifo", "sock", "chr", "blk") else ent["kind"]


def classify(d, sk, ds, before, after, exitc, timed_out):
    """observed outcome in the vocabulary of DestMatrix.v, or a string starting with '?' when it fits none"""
    tp = b"t/x"
    if timed_out:
        return "blocks"
    changed = [p for (p, a, b) in xcp.snap_diff(before, after, ignore=("ino", "nlink", "blocks", "atime_ns"))
               if not p.startswith(b".sup") and p not in (b"", b"t", b"by", b"by/target.d")]
    if exitc != 0:
        return "refused" if not changed else "?non-zero exit but %r changed" % changed[:3]
    want = {"file": "file", "dir": "dir", "link": "link", "special": "special"}[sk]
    newbak = [p for p in after if p.startswith(b"t/x.~") and p not in before and b"/" not in p[len(b"t/x.~"):]]
    now = after.get(tp)
    if before.get(tp, {}).get("kind") == "dir" and _k(now) != "dir":
        return "?the directory found at the path was %s: the entries below it are no longer where they were" % (
            "renamed away to %r" % newbak[0] if newbak else "replaced")
    if newbak:
        if _k(now) != want:
            return "?backup made but t/x is %r" % _k(now)
        old = before.get(tp)
        bk = after[newbak[0]]
        same = all(old.get(k) == bk.get(k) for k in ("kind", "sha", "link", "size"))
        return "created-backed-up" if same and len(newbak) == 1 else "?the backup does not hold the old entry"
    if sk == "file" and ds == "link-file" and _k(now) == "link" and after.get(b"by/target.txt", {}).get("sha") != before[b"by/target.txt"]["sha"]:
        return "written-through"
    if sk == "dir" and (_k(now) == "dir" or (_k(now) == "link" and ds == "link-dir")):
        inside = b"t/x/child" in after or b"by/target.d/child" in after
        if ds in ("dir-empty", "dir-full", "link-dir"):
            return "merged" if inside else "?directory not merged"
        return "created" if inside else "?directory created without its content"
    if _k(now) == want:
        if sk == "link" and os.fsdecode(now.get("link") or b"") != SRC_LINK_TEXT:
            return "?exit 0 but the link at t/x reads %r, the source's reads %r (the entry found there was left in place)" % (now.get("link"), SRC_LINK_TEXT)
        return "created"
    return "?exit 0 but t/x is %r" % _k(now)


def run(ctx, out, prop, opts=OP, sources=SK, judge_table=True):
    rng = ctx.rng
    sup = core.build_sup()
    d0 = ctx.work.fresh(prop.lower() + "matrix")
    cells, obs = [], []
    k = 0
    for sk in sources:
        for ds in DS:
            for op in opts:
                for driver in ("parfile", "parblock"):
                    k += 1
                    d = os.path.join(d0, "m%d" % k)
                    os.makedirs(d)
                    sp, tp = build(rng, d, sk, ds)
                    before = xcp.snapshot(os.fsencode(d))
                    argv = [ctx.bins["xcp"], "-r", "--driver", driver, "-w", str(rng.choice([1, 2, 4]))] + OPT_ARGS[op] + ["s/x", "t"]
                    r = xcp.run_supervised(sup, argv, d, d, tag="x", timeout_ms=6000)
                    timed_out = bool(r.meta.get("timeout")) or r.exit == 124
                    after = xcp.snapshot(os.fsencode(d))
                    got = classify(d, sk, ds, before, after, r.exit, timed_out)
                    rep = dict(source=sk, destination_entry=ds, option=op, driver=driver, argv=argv[1:], exit=r.exit,
                               stderr=r.stderr[-200:], observed=got)
                    out.case(("dest-matrix", sk, ds, op, driver), True)
                    out.count("dest_matrix_cells")
                    # direct oracles
                    if timed_out and not (sk == "file" and ds == "special" and op == "none"):
                        out.violation("xcp does not terminate: %s source onto %s (%s, %s)" % (sk, ds, op, driver), rep)
                    elif got.startswith("?"):
                        out.violation("%s source onto %s (%s, %s): %s" % (sk, ds, op, driver, got[1:]), rep)
                    else:
                        # bystanders: only the designated target of a LIVE link found at the path may change
                        allowed = {"link-file": {b"by/target.txt"}, "link-dir": {b"by/target.d/child"}}.get(ds, set())
                        for (p, a, b) in xcp.snap_diff(before, after, ignore=("ino", "nlink", "blocks", "atime_ns")):
                            if p.startswith(b"by") and p not in (b"by", b"by/target.d") and p not in allowed:
                                out.violation("a bystander (%r) changed: %s source onto %s (%s, %s)" % (p, sk, ds, op, driver), rep)
                                break
                        if op == "no-clobber" and ds != "absent" and got != "refused":
                            out.violation("--no-clobber with an existing %s at the path: %s (exit %d)" % (ds, got, r.exit), rep)
                    cells.append([SK.index(sk), DS.index(ds), OP.index(op)])
                    obs.append((rep, got))
                    shutil.rmtree(d, ignore_errors=True)
    if judge_table and ctx.model_ok and cells:
        res = core.run_model("run_dest_matrix", cells, shard=200, tag=prop.lower() + "dm")
        for (rep, got), mo in zip(obs, res):
            exp = OUT[mo[0]] if mo[0] < len(OUT) else "?"
            if not got.startswith("?") and got != exp:
                out.corr("R1-dest-matrix (DestMatrix.dest_outcome)", rep, exp, got)
    run_parent_missing(ctx, out, prop, sources)
    if obs:
        out.sample(dict(kind="dest-matrix", cell=obs[0][0]["source"] + " onto " + obs[0][0]["destination_entry"], observed=obs[0][1]))


def run_parent_missing(ctx, out, prop, sources=SK):
    """the destination's PARENT directory does not exist (`xcp s/x t/nodir/x`): DestMatrix.parent_missing_outcome — a
    directory source creates the ancestors, every other kind is refused with nothing created (correspondence
    R1-parent-missing); direct oracle: exit 0 implies the entry exists at the path with the source's kind"""
    rng = ctx.rng
    d0 = ctx.work.fresh(prop.lower() + "pmiss")
    cells, obs = [], []
    k = 0
    for sk in sources:
        for driver in ("parfile", "parblock"):
            k += 1
            d = os.path.join(d0, "p%d" % k)
            os.makedirs(d)
            build(rng, d, sk, "absent")
            before = xcp.snapshot(os.fsencode(d))
            argv = [ctx.bins["xcp"], "-r", "--driver", driver, "-w", str(rng.choice([1, 2, 4])), "s/x", "t/nodir/deeper/x"]
            r = xcp.run_plain(argv, d)
            after = xcp.snapshot(os.fsencode(d))
            changed = [p for (p, a, b) in xcp.snap_diff(before, after, ignore=("ino", "nlink", "blocks", "atime_ns")) if p not in (b"", b"t")]
            now = _k(after.get(b"t/nodir/deeper/x"))
            want = {"file": "file", "dir": "dir", "link": "link", "special": "special"}[sk]
            rep = dict(source=sk, destination="parent directory missing", driver=driver, argv=argv[1:], exit=r.exit, stderr=r.stderr[-200:])
            out.case(("parent-missing", sk, driver), True)
            out.count("dest_parent_missing_cells")
            if r.exit == 0 and now != want:
                out.violation("exit 0 but there is no %s at t/nodir/deeper/x (the destination's parent directory did not exist)" % want, rep)
                got = "?"
            elif r.exit == 0:
                got = "created"
            elif changed:
                # ancestors made on the way to a refusal are not entries any source maps onto
                got = "refused" if all(after[p]["kind"] == "dir" for p in changed if p in after) else "?"
                if got == "?":
                    out.violation("non-zero exit but %r changed" % changed[:3], rep)
            else:
                got = "refused"
            cells.append([SK.index(sk)])
            obs.append((rep, got))
            shutil.rmtree(d, ignore_errors=True)
    if ctx.model_ok and cells:
        res = core.run_model("run_parent_missing", cells, shard=200, tag=prop.lower() + "pm")
        for (rep, got), mo in zip(obs, res):
            exp = OUT[mo[0]] if mo[0] < len(OUT) else "?"
            if got != "?" and got != exp:
                out.corr("R1-parent-missing (DestMatrix.parent_missing_outcome)", rep, exp, got)
